INIT Init
NEXT Next
CONSTANT Dev = {}
INVARIANT RefinesBatch
INVARIANT NoResidueBatch
INVARIANT RefinesStepwise
INVARIANT NoResidueStepwise
CHECK_DEADLOCK FALSE
