SPECIFICATION Spec
CONSTANTS N = 2
          Deviations = {"DevSharedLevelStamp", "DevSharedErrorBuffer", "DevSharedLastError", "DevSharedRng"}
INVARIANT NoRace
CHECK_DEADLOCK FALSE
