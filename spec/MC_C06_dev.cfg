INIT Init
NEXT Next
CONSTANTS W = 5
          Dev = "naive_step"
INVARIANT SameDecision
INVARIANT NoWrap
CHECK_DEADLOCK FALSE
