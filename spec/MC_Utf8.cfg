INIT Init
NEXT Next
INVARIANT DecoderCorrect
CHECK_DEADLOCK FALSE
