---- MODULE MC_Kleene_TTrace_1791007232 ----
EXTENDS MC_Kleene, Sequences, TLCExt, Toolbox, Naturals, TLC

_expression ==
    LET MC_Kleene_TEExpression == INSTANCE MC_Kleene_TEExpression
    IN MC_Kleene_TEExpression!expression
----

_trace ==
    LET MC_Kleene_TETrace == INSTANCE MC_Kleene_TETrace
    IN MC_Kleene_TETrace!trace
----

_inv ==
    ~(
        TLCGet("level") = Len(_TETrace)
        /\
        last = ([got |-> "T", want |-> "T"])
        /\
        vals = ([vA |-> "T", vB |-> "T"])
        /\
        tmp = ("cN")
        /\
        cell = ([t |-> [val |-> "N", lv |-> FALSE], cT |-> [val |-> "T", lv |-> TRUE], cF |-> [val |-> "F", lv |-> TRUE], cN |-> [val |-> "T", lv |-> FALSE], vA |-> [val |-> "T", lv |-> TRUE], vB |-> [val |-> "T", lv |-> TRUE]])
    )
----

_init ==
    /\ tmp = _TETrace[1].tmp
    /\ last = _TETrace[1].last
    /\ vals = _TETrace[1].vals
    /\ cell = _TETrace[1].cell
----

_next ==
    /\ \E i,j \in DOMAIN _TETrace:
        /\ \/ /\ j = i + 1
              /\ i = TLCGet("level")
        /\ tmp  = _TETrace[i].tmp
        /\ tmp' = _TETrace[j].tmp
        /\ last  = _TETrace[i].last
        /\ last' = _TETrace[j].last
        /\ vals  = _TETrace[i].vals
        /\ vals' = _TETrace[j].vals
        /\ cell  = _TETrace[i].cell
        /\ cell' = _TETrace[j].cell

\* Uncomment the ASSUME below to write the states of the error trace
\* to the given file in Json format. Note that you can pass any tuple
\* to `JsonSerialize`. For example, a sub-sequence of _TETrace.
    \* ASSUME
    \*     LET J == INSTANCE Json
    \*         IN J!JsonSerialize("MC_Kleene_TTrace_1791007232.json", _TETrace)

=============================================================================

 Note that you can extract this module `MC_Kleene_TEExpression`
  to a dedicated file to reuse `expression` (the module in the 
  dedicated `MC_Kleene_TEExpression.tla` file takes precedence 
  over the module `MC_Kleene_TEExpression` below).

---- MODULE MC_Kleene_TEExpression ----
EXTENDS MC_Kleene, Sequences, TLCExt, Toolbox, Naturals, TLC

expression == 
    [
        \* To hide variables of the `MC_Kleene` spec from the error trace,
        \* remove the variables below.  The trace will be written in the order
        \* of the fields of this record.
        tmp |-> tmp
        ,last |-> last
        ,vals |-> vals
        ,cell |-> cell
        
        \* Put additional constant-, state-, and action-level expressions here:
        \* ,_stateNumber |-> _TEPosition
        \* ,_tmpUnchanged |-> tmp = tmp'
        
        \* Format the `tmp` variable as Json value.
        \* ,_tmpJson |->
        \*     LET J == INSTANCE Json
        \*     IN J!ToJson(tmp)
        
        \* Lastly, you may build expressions over arbitrary sets of states by
        \* leveraging the _TETrace operator.  For example, this is how to
        \* count the number of times a spec variable changed up to the current
        \* state in the trace.
        \* ,_tmpModCount |->
        \*     LET F[s \in DOMAIN _TETrace] ==
        \*         IF s = 1 THEN 0
        \*         ELSE IF _TETrace[s].tmp # _TETrace[s-1].tmp
        \*             THEN 1 + F[s-1] ELSE F[s-1]
        \*     IN F[_TEPosition - 1]
    ]

=============================================================================



Parsing and semantic processing can take forever if the trace below is long.
 In this case, it is advised to uncomment the module below to deserialize the
 trace from a generated binary file.

\*
\*---- MODULE MC_Kleene_TETrace ----
\*EXTENDS MC_Kleene, IOUtils, TLC
\*
\*trace == IODeserialize("MC_Kleene_TTrace_1791007232.bin", TRUE)
\*
\*=============================================================================
\*

---- MODULE MC_Kleene_TETrace ----
EXTENDS MC_Kleene, TLC

trace == 
    <<
    ([last |-> [got |-> "N", want |-> "N"],vals |-> [vA |-> "T", vB |-> "T"],tmp |-> "none",cell |-> [t |-> [val |-> "N", lv |-> FALSE], cT |-> [val |-> "T", lv |-> TRUE], cF |-> [val |-> "F", lv |-> TRUE], cN |-> [val |-> "N", lv |-> FALSE], vA |-> [val |-> "T", lv |-> TRUE], vB |-> [val |-> "T", lv |-> TRUE]]]),
    ([last |-> [got |-> "T", want |-> "T"],vals |-> [vA |-> "T", vB |-> "T"],tmp |-> "cN",cell |-> [t |-> [val |-> "N", lv |-> FALSE], cT |-> [val |-> "T", lv |-> TRUE], cF |-> [val |-> "F", lv |-> TRUE], cN |-> [val |-> "T", lv |-> FALSE], vA |-> [val |-> "T", lv |-> TRUE], vB |-> [val |-> "T", lv |-> TRUE]]])
    >>
----


=============================================================================

---- CONFIG MC_Kleene_TTrace_1791007232 ----
CONSTANTS
    Deviations = { "DevNullConstNotLvalue" }

INVARIANT
    _inv

CHECK_DEADLOCK
    \* CHECK_DEADLOCK off because of PROPERTY or INVARIANT above.
    FALSE

INIT
    _init

NEXT
    _next

CONSTANT
    _TETrace <- _trace

ALIAS
    _expression
=============================================================================
\* Generated on Sat Oct 03 06:00:33 UTC 2026