INIT Init
NEXT Next
CONSTANTS W = 5
          Dev = "none"
INVARIANT SameDecision
INVARIANT NoWrap
CHECK_DEADLOCK FALSE
