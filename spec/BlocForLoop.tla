----------------------------- MODULE BlocForLoop -----------------------------
(***************************************************************************)
(* The iteration test of the FOR statement (FORStatement::doit) on W-bit   *)
(* two's-complement integers, against the manual's meaning on mathematical *)
(* integers: the control variable visits first, first+step, ... while the  *)
(* next value is still inside [min, max]; the body may move the variable.  *)
(* Impl compares the DISTANCE to the bound as an unsigned number, so that  *)
(* the variable never wraps around at the limits of the integer range.     *)
(* TLC checks for all W-bit values of the variable, both bounds and every  *)
(* step: the implementation continues exactly when the ideal loop does,    *)
(* and the value it then stores is the ideal next value (no wrap).         *)
(* Dev = "naive_step" is the pinned tree (cur + step compared after the    *)
(* addition wrapped): endless loop near the limits.                        *)
(***************************************************************************)
EXTENDS Integers, TLC
CONSTANTS W, Dev
Lo == -(2 ^ (W - 1))
Hi == 2 ^ (W - 1) - 1
Ints == Lo..Hi
Wrap(x) == ((x - Lo) % (2 ^ W)) + Lo            \* W-bit wrap-around of a mathematical integer
U(x) == IF x < 0 THEN x + 2 ^ W ELSE x          \* the same bits read as unsigned
USub(a, b) == (U(a) - U(b)) % (2 ^ W)           \* unsigned subtraction

\* ideal: is there a next iteration after the body left the variable at cur, and which value
IdealGoes(cur, min, max, step) == IF step > 0 THEN cur <= max /\ cur + step <= max ELSE cur >= min /\ cur + step >= min
IdealNext(cur, step) == cur + step

ImplGoes(cur, min, max, step) ==
  IF Dev = "naive_step"
  THEN (IF step > 0 THEN Wrap(cur + step) <= max ELSE Wrap(cur + step) >= min)
  ELSE ~( (step > 0 /\ (cur > max \/ USub(max, cur) < U(step)))
       \/ (step < 0 /\ (cur < min \/ USub(cur, min) < U(-step))) )
ImplNext(cur, step) == Wrap(cur + step)

VARIABLES cur, min, max, step
Init == cur \in Ints /\ min \in Ints /\ max \in Ints /\ min <= max /\ step \in (Ints \ {0, Lo})
Next == UNCHANGED <<cur, min, max, step>>
SameDecision == ImplGoes(cur, min, max, step) = IdealGoes(cur, min, max, step)
NoWrap == ImplGoes(cur, min, max, step) => ImplNext(cur, step) = IdealNext(cur, step)
=============================================================================
