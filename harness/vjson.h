// Minimal JSON reader/writer for the verification harnesses (no external dependency).
#ifndef VJSON_H
#define VJSON_H
#include <string>
#include <vector>
#include <map>
#include <memory>
#include <cstdio>
#include <cstdlib>
#include <cstring>
#include <cstdint>

namespace vj {

struct Val;
typedef std::shared_ptr<Val> P;
struct Val {
  enum K { NUL, BOOL, NUM, STR, ARR, OBJ } k = NUL;
  bool b = false;
  long long n = 0;
  std::string s;
  std::vector<P> a;
  std::vector<std::pair<std::string, P>> o;
  const Val* get(const char* key) const {
    for (auto& e : o) if (e.first == key) return e.second.get();
    return nullptr;
  }
  std::string str(const char* key, const char* def = "") const {
    const Val* v = get(key); return (v && v->k == STR) ? v->s : def;
  }
  long long num(const char* key, long long def = 0) const {
    const Val* v = get(key); return (v && v->k == NUM) ? v->n : def;
  }
  bool boolean(const char* key, bool def = false) const {
    const Val* v = get(key); return (v && v->k == BOOL) ? v->b : def;
  }
};

struct Parser {
  const char* p; const char* e; bool ok = true;
  Parser(const std::string& s) : p(s.data()), e(s.data() + s.size()) {}
  void ws() { while (p < e && (*p == ' ' || *p == '\n' || *p == '\t' || *p == '\r')) ++p; }
  P parse() {
    ws();
    P v(new Val());
    if (p >= e) { ok = false; return v; }
    if (*p == '{') {
      v->k = Val::OBJ; ++p; ws();
      if (p < e && *p == '}') { ++p; return v; }
      while (ok) {
        ws(); P key = parse(); ws();
        if (p >= e || *p != ':') { ok = false; break; }
        ++p; P val = parse();
        v->o.push_back({key->s, val}); ws();
        if (p < e && *p == ',') { ++p; continue; }
        if (p < e && *p == '}') { ++p; break; }
        ok = false;
      }
    } else if (*p == '[') {
      v->k = Val::ARR; ++p; ws();
      if (p < e && *p == ']') { ++p; return v; }
      while (ok) {
        v->a.push_back(parse()); ws();
        if (p < e && *p == ',') { ++p; continue; }
        if (p < e && *p == ']') { ++p; break; }
        ok = false;
      }
    } else if (*p == '"') {
      v->k = Val::STR; ++p;
      while (p < e && *p != '"') {
        if (*p == '\\' && p + 1 < e) {
          ++p;
          switch (*p) {
          case 'n': v->s += '\n'; break; case 't': v->s += '\t'; break;
          case 'r': v->s += '\r'; break; case 'b': v->s += '\b'; break;
          case 'f': v->s += '\f'; break;
          case 'u': {
            unsigned c = 0; for (int i = 1; i <= 4 && p + i < e; ++i) c = c * 16 + (unsigned)strtol(std::string(1, p[i]).c_str(), nullptr, 16);
            p += 4;
            if (c < 0x80) v->s += (char)c;
            else if (c < 0x800) { v->s += (char)(0xC0 | (c >> 6)); v->s += (char)(0x80 | (c & 0x3F)); }
            else { v->s += (char)(0xE0 | (c >> 12)); v->s += (char)(0x80 | ((c >> 6) & 0x3F)); v->s += (char)(0x80 | (c & 0x3F)); }
            break; }
          default: v->s += *p;
          }
          ++p;
        } else v->s += *p++;
      }
      if (p < e) ++p; else ok = false;
    } else if (!strncmp(p, "true", 4)) { v->k = Val::BOOL; v->b = true; p += 4; }
    else if (!strncmp(p, "false", 5)) { v->k = Val::BOOL; v->b = false; p += 5; }
    else if (!strncmp(p, "null", 4)) { v->k = Val::NUL; p += 4; }
    else {
      v->k = Val::NUM; char* end; v->n = strtoll(p, &end, 10);
      if (end == p) ok = false;
      p = end;
      // skip fractional part if any (not used)
      if (p < e && (*p == '.' || *p == 'e' || *p == 'E')) { strtod(p - 1, &end); p = end; }
    }
    return v;
  }
};

inline void esc(std::string& out, const std::string& s) {
  out += '"';
  for (unsigned char c : s) {
    if (c == '"') out += "\\\""; else if (c == '\\') out += "\\\\";
    else if (c == '\n') out += "\\n"; else if (c == '\t') out += "\\t"; else if (c == '\r') out += "\\r";
    else if (c < 0x20 || c >= 0x7f) { char b[8]; snprintf(b, sizeof b, "\\u%04x", c); out += b; }
    else out += (char)c;
  }
  out += '"';
}
inline std::string q(const std::string& s) { std::string o; esc(o, s); return o; }
inline bool plain(const std::string& s) {
  for (unsigned char c : s) if (c < 0x20 || c >= 0x7f) return false;
  return true;
}
inline std::string bytes(const char* d, size_t n) {
  std::string o = "[";
  for (size_t i = 0; i < n; ++i) { if (i) o += ','; o += std::to_string((unsigned)(unsigned char)d[i]); }
  return o + "]";
}
} // namespace vj
#endif
