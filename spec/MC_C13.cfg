INIT Init
NEXT Next
CONSTANT MaxLen = 4
INVARIANT LineInvariant
CHECK_DEADLOCK FALSE
