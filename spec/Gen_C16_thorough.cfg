SPECIFICATION Spec
CONSTANTS Modules = {"csv", "utf8"}
          MaxLen = 4
INVARIANT Emit
CHECK_DEADLOCK FALSE
