------------------------------- MODULE Arith64 -------------------------------
(***************************************************************************)
(* 64-bit instance of Int64.tla and the manual's rules for BLOC's integer  *)
(* operators, conversions int() / num(), and the shape of results with a   *)
(* decimal operand.  Operands and results are the records the harness      *)
(* exchanges:                                                              *)
(*   [k |-> "i", b8 |-> 8 bytes]   integer        [k |-> "ni"]  null integer *)
(*   [k |-> "d", cls, s, m, e]     decimal  (-1)^s * m * 2^e, m odd (8 bytes) *)
(*   [k |-> "nd"] null decimal     [k |-> "n"]   untyped null              *)
(***************************************************************************)
EXTENDS Integers, Sequences, TLC
I64 == INSTANCE Int64 WITH LW <- 8, NL <- 8

IntRes(x)  == [t |-> "int", b8 |-> x]
ErrRes(n)  == [t |-> "err", name |-> n]
NullRes(m) == [t |-> "null", m |-> m]          \* null of major type m
BoolRes(b) == [t |-> "bool", v |-> b]
DecAny     == [t |-> "dec", any |-> TRUE]       \* a decimal whose value is not pinned here
DecRes(s, m, e) == [t |-> "dec", cls |-> "fin", s |-> s, m |-> m, e |-> e]

IsInt(o) == o.k = "i"
IsNullOp(o) == o.k \in {"ni", "nd", "n"}
IsDec(o) == o.k = "d"

\* number of significant bits of an unsigned 64-bit value (0 for 0)
RECURSIVE BitLenFrom(_, _)
BitLenFrom(m, k) == IF k = 0 THEN 0 ELSE IF I64!BitAt(m, k - 1) = 1 THEN k ELSE BitLenFrom(m, k - 1)
BitLen(m) == BitLenFrom(m, 64)
RECURSIVE TrailingZeros(_, _)
TrailingZeros(m, k) == IF k >= 64 THEN 64 ELSE IF I64!BitAt(m, k) = 1 THEN k ELSE TrailingZeros(m, k + 1)
\* normalise m * 2^e to an odd mantissa
NormDec(s, m, e) == IF I64!IsZero(m) THEN DecRes(s, m, 0)
                    ELSE LET z == TrailingZeros(m, 0) IN DecRes(s, I64!ShrBits(m, z), e + z)

\* displacement of a shift as the manual defines it; huge values shift everything out
ShiftRes(dir, a, b) ==
  IF ~I64!FitsSmall(b) THEN I64!Zero
  ELSE IF dir = "<<" THEN I64!Shl(a, I64!ToInt(b)) ELSE I64!Shr(a, I64!ToInt(b))

\* expected result of  A op B  for integer / null operands.  "UNPINNED" where the manual says nothing.
IntOp(op, oa, ob) ==
  IF op \in {"==", "!=", "<", "<=", ">", ">="} THEN
       IF IsNullOp(oa) \/ IsNullOp(ob) THEN NullRes("bool")
       ELSE LET c == I64!SCmp(oa.b8, ob.b8) IN
            BoolRes(CASE op = "==" -> c = 0 [] op = "!=" -> c # 0 [] op = "<" -> c < 0 [] op = "<=" -> c <= 0
                      [] op = ">" -> c > 0 [] op = ">=" -> c >= 0)
  ELSE IF IsNullOp(oa) \/ IsNullOp(ob) THEN NullRes("int")
  ELSE LET a == oa.b8  b == ob.b8 IN
       CASE op = "+" -> IntRes(I64!Add(a, b))
         [] op = "-" -> IntRes(I64!Sub(a, b))
         [] op = "*" -> IntRes(I64!Mul(a, b))
         [] op = "/" -> IF I64!IsZero(b) THEN ErrRes("DIVIDE_BY_ZERO") ELSE IntRes(I64!Div(a, b))
         [] op = "%" -> IF I64!IsZero(b) THEN ErrRes("DIVIDE_BY_ZERO") ELSE IntRes(I64!Mod(a, b))
         [] op \in {"**", "power"} ->
              IF I64!IsNeg(b) THEN [t |-> "unpinned"]
              ELSE IntRes(I64!PowL(a, b))
         [] op = "&" -> IntRes(I64!And(a, b))
         [] op = "|" -> IntRes(I64!Or(a, b))
         [] op = "^" -> IntRes(I64!Xor(a, b))
         [] op \in {"<<", ">>"} -> IntRes(ShiftRes(op, a, b))
         [] op = "max" -> IntRes(IF I64!SCmp(a, b) >= 0 THEN a ELSE b)
         [] op = "min" -> IntRes(IF I64!SCmp(a, b) <= 0 THEN a ELSE b)
         [] OTHER -> [t |-> "unpinned"]

UnOp(op, oa) ==
  IF IsNullOp(oa) THEN NullRes("int")
  ELSE CASE op = "neg" -> IntRes(I64!Neg(oa.b8))
         [] op = "not" -> IntRes(I64!Not(oa.b8))
         [] op = "abs" -> IntRes(I64!Abs(oa.b8))
         [] OTHER -> [t |-> "unpinned"]

\* int(d): succeeds exactly when -2^63 <= d < 2^63, truncating toward zero; OUT_OF_RANGE otherwise
IntOfDec(o) ==
  IF o.cls # "fin" THEN ErrRes("OUT_OF_RANGE")
  ELSE IF I64!IsZero(o.m) THEN IntRes(I64!Zero)
  ELSE LET top == BitLen(o.m) + o.e IN            \* 2^(top-1) <= |d| < 2^top
       IF top <= 63 THEN
            LET mag == IF o.e >= 0 THEN I64!ShlBits(o.m, o.e) ELSE I64!ShrBits(o.m, -o.e)
            IN  IntRes(IF o.s = 1 THEN I64!Neg(mag) ELSE mag)
       ELSE IF top = 64 /\ o.s = 1 /\ BitLen(o.m) = 1 THEN IntRes(I64!MinInt)      \* exactly -2^63
       ELSE ErrRes("OUT_OF_RANGE")

\* num(i): exact when |i| < 2^53, otherwise one of the two neighbouring doubles
NumOfIntSet(o) ==
  LET neg == I64!IsNeg(o.b8)
      mag == I64!Abs(o.b8)
      L   == BitLen(mag)
      s   == IF neg THEN 1 ELSE 0
  IN  IF L <= 53 THEN {NormDec(s, mag, 0)}
      ELSE LET sh == L - 53
               lo == I64!ShrBits(mag, sh)
               exact == I64!ShlBits(lo, sh) = mag
           IN  IF exact THEN {NormDec(s, lo, sh)} ELSE {NormDec(s, lo, sh), NormDec(s, I64!Add(lo, I64!One), sh)}

SameRes(got, want) ==
  CASE want.t = "unpinned" -> got.t \in {"int", "dec", "null", "err"}
    [] want.t = "int" -> got.t = "int" /\ got.b8 = want.b8
    [] want.t = "err" -> got.t = "err" /\ got.name = want.name
    [] want.t = "null" -> got.t = "null" /\ got.ty.m = want.m /\ got.ty.l = 0
    [] want.t = "bool" -> got.t = "bool" /\ got.v = want.v
    [] want.t = "dec" -> got.t = "dec" /\ ("any" \in DOMAIN want \/ (got.cls = want.cls /\ got.s = want.s /\ got.m = want.m /\ got.e = want.e))
    [] OTHER -> FALSE
=============================================================================
