------------------------------ MODULE Gen_C06 ------------------------------
(***************************************************************************)
(* Scenario generator for C06.                                             *)
(*  H: every for-header of the lattice first/limit x step x direction,     *)
(*     including null bounds and the INT64 boundaries (symbolic BigC), with *)
(*     a body that counts, prints the control variable relative to a base   *)
(*     and leaves after 4 rounds; one variant changes the control variable. *)
(*  A: forall in both orders, writes through the iterator, nested tables.   *)
(*  N: break / continue / return / assignment to the control variable at    *)
(*     the bottom of every nesting (Shapes.tla), batch and stepwise, with   *)
(*     a probe program and a dump afterwards.                               *)
(***************************************************************************)
EXTENDS Shapes

(* ------------------------------ headers ------------------------------- *)
Small == <<I(-2), I(-1), I(0), I(1), I(2), I(3)>>
NearMax == <<BigC("MAX", -2), BigC("MAX", -1), BigC("MAX", 0)>>
NearMin == <<BigC("MIN", 0), BigC("MIN", 1), BigC("MIN", 2)>>
NullI == Call("int", <<>>)
Steps == <<NoExpr, NullI, I(0), I(-1), I(1), I(2), BigC("MAX", 0)>>
Dirs  == {"auto", "asc", "desc"}

\* body: N counts rounds, the control variable is shown relative to base (when show), at most 4 rounds
HBody(base, mod, show) ==
  << Let("N", Bin("+", V("N"), I(1))) >> \o
  (IF show THEN <<PutS(<<Bin("-", V("I"), base), Str(" ")>>)>> ELSE <<PutS(<<Str(".")>>)>>) \o
  (IF mod THEN <<Let("I", Bin("+", V("I"), I(1)))>> ELSE <<>>) \o
  << If(Bin(">=", V("N"), I(4)), <<Break>>, <<>>) >>

\* I = 77 beforehand: a loop that runs zero times must not touch the variable
HProg(a, b, st, dir, base, mod, show) ==
  << Let("N", I(0)), Let("I", I(77)),
     For("I", a, b, st, dir, HBody(base, mod, show)),
     PrintS(<<Str("|"), V("N")>>),
     \* normalise the control variable for the dump (it may hold a 64-bit boundary value)
     If(Bin("and", B(show), Bin(">", V("N"), I(0))), <<Let("D", Bin("-", V("I"), base))>>,
        <<If(Bin(">", V("N"), I(0)), <<Let("D", I(0))>>, <<Let("D", V("I"))>>)>>),
     Let("I", I(0)) >>

\* the body moves the control variable (up, down, beyond either bound); the loop ends as soon as the
\* next value leaves [first, limit] on the side the loop is heading to
MBody(delta) ==
  << Let("N", Bin("+", V("N"), I(1))), PutS(<<V("I"), Str(" ")>>),
     If(Bin("==", V("N"), I(2)), <<Let("I", Bin("+", V("I"), I(delta)))>>, <<>>),
     If(Bin(">=", V("N"), I(6)), <<Break>>, <<>>) >>
MProg(a, b, st, dir, delta) ==
  << Let("N", I(0)), Let("I", I(77)), For("I", a, b, st, dir, MBody(delta)), PrintS(<<Str("|"), V("N"), Str(" "), V("I")>>) >>
ModProgs == {MProg(I(a), I(b), st, d, delta) : a \in {0, 5, 8}, b \in {0, 5, 8}, st \in {NoExpr, I(2), I(3)}, d \in Dirs, delta \in {-20, -4, -1, 1, 4, 20}}

HeaderProgs ==
  {HProg(Small[i], Small[j], Steps[s], d, I(0), FALSE, TRUE) : i \in DOMAIN Small, j \in DOMAIN Small, s \in DOMAIN Steps, d \in Dirs}
  \cup {HProg(Small[i], Small[j], NoExpr, d, I(0), TRUE, TRUE) : i \in DOMAIN Small, j \in DOMAIN Small, d \in Dirs}
  \cup {HProg(NullI, Small[j], NoExpr, d, I(0), FALSE, TRUE) : j \in DOMAIN Small, d \in Dirs}
  \cup {HProg(Small[j], NullI, NoExpr, d, I(0), FALSE, TRUE) : j \in DOMAIN Small, d \in Dirs}
  \cup {HProg(NearMax[i], NearMax[j], Steps[s], d, BigC("MAX", 0), FALSE, TRUE) : i \in DOMAIN NearMax, j \in DOMAIN NearMax, s \in DOMAIN Steps, d \in Dirs}
  \cup {HProg(NearMin[i], NearMin[j], Steps[s], d, BigC("MIN", 0), FALSE, TRUE) : i \in DOMAIN NearMin, j \in DOMAIN NearMin, s \in DOMAIN Steps, d \in Dirs}
  \cup {HProg(Small[i], NearMax[j], BigC("MAX", 0), d, I(0), FALSE, FALSE) : i \in {3, 4}, j \in DOMAIN NearMax, d \in Dirs}
  \cup {HProg(NearMax[j], Small[i], BigC("MAX", 0), d, I(0), FALSE, FALSE) : i \in {3, 4}, j \in DOMAIN NearMax, d \in Dirs}
  \cup {HProg(NearMin[j], Small[i], BigC("MAX", 0), d, I(0), FALSE, FALSE) : i \in {3, 4}, j \in DOMAIN NearMin, d \in Dirs}
  \cup {HProg(NearMin[i], NearMax[j], BigC("MAX", 0), d, I(0), FALSE, FALSE) : i \in DOMAIN NearMin, j \in DOMAIN NearMax, d \in Dirs}
  \cup {HProg(NearMax[j], NearMin[i], BigC("MAX", 0), d, I(0), FALSE, FALSE) : i \in DOMAIN NearMin, j \in DOMAIN NearMax, d \in Dirs}
  \cup {HProg(NearMin[i], NearMax[j], NoExpr, d, I(0), FALSE, FALSE) : i \in DOMAIN NearMin, j \in DOMAIN NearMax, d \in Dirs}

(* ------------------------------ forall -------------------------------- *)
TabOf(xs) == \* table built by concat:  tab(0, 0).concat(x1).concat(x2)...
  LET F[i \in 0..Len(xs)] == IF i = 0 THEN Call("tab", <<I(0), I(0)>>) ELSE Mem(F[i - 1], "concat", <<I(xs[i])>>)
  IN  F[Len(xs)]
AProgs ==
  {<< Let("T", TabOf(xs)),
      Forall("E", V("T"), d, <<PutS(<<V("E"), Str(" ")>>), Let("E", Bin("*", V("E"), I(10)))>> \o extra),
      PrintS(<<Str("|"), Mem(V("T"), "count", <<>>)>>),
      Do(Mem(V("T"), "concat", <<I(99)>>)), Let("E", Str("free")) >>
     : xs \in {<<>>, <<1>>, <<1, 2>>, <<3, 1, 2>>}, d \in Dirs,
       extra \in {<<>>, <<If(Bin("==", V("E"), I(10)), <<Continue>>, <<>>), PutS(<<Str("x")>>)>>,
                  <<If(Bin("==", V("E"), I(10)), <<Break>>, <<>>)>>}}
  \cup
  {<< Let("T", Call("tab", <<I(2), Call("tab", <<I(2), I(1)>>)>>)),
      Forall("R", V("T"), d, <<Forall("E", V("R"), "auto", <<Let("E", Bin("+", V("E"), I(1)))>>)>>),
      Forall("E", Mem(V("T"), "at", <<I(1)>>), d, <<Let("E", Bin("+", V("E"), I(5)))>>),
      PrintS(<<Mem(Mem(V("T"), "at", <<I(0)>>), "at", <<I(1)>>), Mem(Mem(V("T"), "at", <<I(1)>>), "at", <<I(0)>>)>>) >>
     : d \in Dirs}

NestedForall ==
  { << Let("T", TabOf(<<1, 2>>)),
       Forall("E", V("T"), d1, <<Forall("F", V("T"), d2, <<PutS(<<V("E"), V("F"), Str(" ")>>)>> \o x)>>),
       PrintS(<<Str("|")>>), Let("E", Str("free")), Let("F", Str("free")), Do(Mem(V("T"), "concat", <<I(3)>>)),
       Forall("F", V("T"), "auto", <<Let("F", Bin("*", V("F"), I(2)))>>), Forall("E", V("T"), "auto", <<PutS(<<V("E"), Str(" ")>>)>>) >>
      : d1 \in Dirs, d2 \in Dirs, x \in {<<>>, <<Break>>, <<Continue>>, <<If(Bin("==", V("F"), I(2)), <<Break>>, <<>>)>>} }
  \cup
  { << Let("T", Call("tab", <<I(2), TabOf(<<1, 2>>)>>)),
       Forall("R", V("T"), "auto", <<Forall("E", V("R"), d, <<PutS(<<V("E")>>), Let("E", Bin("+", V("E"), I(1)))>>), Forall("G", V("T"), "auto", <<PutS(<<Str(".")>>)>>)>>),
       Let("R", I(0)), Let("E", I(0)), Let("G", I(0)),
       PrintS(<<Mem(Mem(V("T"), "at", <<I(1)>>), "at", <<I(1)>>)>>), Do(Mem(V("T"), "delete", <<I(0)>>)) >> : d \in Dirs }

(* ------------------------------ nestings ------------------------------ *)
CLeaves == << <<Break>>, <<Continue>>, <<Return(I(9))>>, <<Return(NoExpr)>>,
              <<Begin(<<RaiseS("E1")>>, <<When("E1", <<Break>>)>>)>>,
              <<Begin(<<Break>>, <<When("OTHERS", <<P("never")>>)>>), P("x")>>,
              \* loops left by an error: raised, raised again by the handler, a failing operation
              <<RaiseS("E1")>>, <<Begin(<<RaiseS("E1")>>, <<When("E1", <<P("hr"), RaiseS("E2")>>)>>)>>, <<Let("X", Bin("/", I(1), I(0)))>>,
              \* a condition that becomes null while the loop runs (a null tests false: the loop ends, nothing is raised)
              <<Let("BB", B(TRUE)), While(V("BB"), <<P("nb"), Let("BB", NullC)>>), P("nz")>>,
              <<Let("BB", B(TRUE)), While(V("BB"), <<P("nc"), Let("BB", Call("bool", <<>>))>>), If(V("BB"), <<P("t")>>, <<P("f")>>)>>,
              \* assignments chained with commas and ended by a control statement: the statements after the chain do not run, the
              \* loop that is left (or continued) is the enclosing one -- not one that starts afterwards
              <<Chain(<<Let("K", I(1)), Break>>), P("cb")>>, <<Chain(<<Let("K", I(1)), Continue>>), P("cc")>>, <<Chain(<<Let("K", I(1)), Return(V("K"))>>), P("cr")>>,
              <<Chain(<<Let("K", I(1)), Let("K2", I(2)), If(Bin("==", V("K2"), I(2)), <<Continue>>, <<>>)>>), P("ci")>>,
              <<Chain(<<Let("K", I(1)), Break>>), For("J2", I(1), I(2), NoExpr, "auto", <<P("in")>>), P("cf")>>,
              <<Chain(<<Let("K", I(1)), Let("K2", Bin("+", V("K"), I(1))), PutS(<<V("K2")>>)>>), P("ck")>> >>
\* leaves that read the root variable C are not placed inside function bodies (locals only there)
CLeavesC == << <<If(Bin("==", V("C"), I(0)), <<Let("C", I(1)), Break>>, <<>>)>>,
               <<If(Bin("==", V("C"), I(0)), <<Let("C", I(1)), Continue>>, <<>>)>> >>
NShapes == UNION {ShapesOf(d, CLeaves) : d \in 1..Depth}
           \cup {x \in UNION {ShapesOf(d, CLeavesC) : d \in 1..Depth} : x.defs = <<>>}
Prelude == <<Let("TT", Call("tab", <<I(2), I(7)>>)), Let("C", I(0))>>
NMain(x) == Prelude \o x.defs \o x.body \o <<P("after")>>
NProbe == <<Break, For("J", I(1), I(3), NoExpr, "auto", <<PutS(<<V("J")>>)>>), P(""),
            Let("I1", Str("s")), Let("I2", Str("s")), Let("E1", Str("s")), Let("E2", Str("s")),
            Do(Mem(V("TT"), "put", <<I(0), I(5)>>)), P("ok")>>

VARIABLE p
Init == p \in {[kind |-> "H", m |-> x] : x \in HeaderProgs \cup ModProgs} \cup {[kind |-> "A", m |-> x] : x \in AProgs \cup NestedForall}
              \cup {[kind |-> "N", m |-> NMain(x)] : x \in NShapes}
Next == UNCHANGED p
Scenario(q) ==
  IF q.kind = "N" THEN
    [prop |-> "C06", key |-> q.kind,
     steps |-> << [op |-> "exec", ctx |-> 0, ast |-> q.m, text |-> Render(q.m)],
                  [op |-> "exec", ctx |-> 0, ast |-> NProbe, text |-> Render(NProbe)],
                  [op |-> "dump", ctx |-> 0],
                  [op |-> "step", ctx |-> 1, ast |-> q.m, text |-> Render(q.m)],
                  [op |-> "step", ctx |-> 1, ast |-> NProbe, text |-> Render(NProbe)],
                  [op |-> "dump", ctx |-> 1] >>]
  ELSE
    [prop |-> "C06", key |-> q.kind,
     steps |-> << [op |-> "exec", ctx |-> 0, ast |-> q.m, text |-> Render(q.m)],
                  [op |-> "dump", ctx |-> 0] >>]
Emit == PrintT("@@S " \o ToJson(Scenario(p)))
=============================================================================
