CONSTANTS LW = 4
          NL = 2
          Quick = TRUE
INIT Init
NEXT Next
INVARIANT Arith
INVARIANT Bits
INVARIANT Shifts
INVARIANT Powers
INVARIANT Order
CHECK_DEADLOCK FALSE
