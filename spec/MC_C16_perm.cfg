SPECIFICATION Spec
CONSTANTS Modules = {"csv", "utf8"}
          Alphabet = "perm"
          MaxLen = 7
INVARIANT NoUngrantedObject
INVARIANT UntrustedNeverLoadsByPath
INVARIANT TrustedUnrestricted
CHECK_DEADLOCK FALSE
