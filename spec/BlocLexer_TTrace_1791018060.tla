---- MODULE BlocLexer_TTrace_1791018060 ----
EXTENDS Sequences, TLCExt, Toolbox, Naturals, TLC, BlocLexer

_expression ==
    LET BlocLexer_TEExpression == INSTANCE BlocLexer_TEExpression
    IN BlocLexer_TEExpression!expression
----

_trace ==
    LET BlocLexer_TETrace == INSTANCE BlocLexer_TETrace
    IN BlocLexer_TETrace!trace
----

_inv ==
    ~(
        TLCGet("level") = Len(_TETrace)
        /\
        text = (<<"=", "=">>)
        /\
        cuts = ({1})
    )
----

_init ==
    /\ text = _TETrace[1].text
    /\ cuts = _TETrace[1].cuts
----

_next ==
    /\ \E i,j \in DOMAIN _TETrace:
        /\ \/ /\ j = i + 1
              /\ i = TLCGet("level")
        /\ text  = _TETrace[i].text
        /\ text' = _TETrace[j].text
        /\ cuts  = _TETrace[i].cuts
        /\ cuts' = _TETrace[j].cuts

\* Uncomment the ASSUME below to write the states of the error trace
\* to the given file in Json format. Note that you can pass any tuple
\* to `JsonSerialize`. For example, a sub-sequence of _TETrace.
    \* ASSUME
    \*     LET J == INSTANCE Json
    \*         IN J!JsonSerialize("BlocLexer_TTrace_1791018060.json", _TETrace)

=============================================================================

 Note that you can extract this module `BlocLexer_TEExpression`
  to a dedicated file to reuse `expression` (the module in the 
  dedicated `BlocLexer_TEExpression.tla` file takes precedence 
  over the module `BlocLexer_TEExpression` below).

---- MODULE BlocLexer_TEExpression ----
EXTENDS Sequences, TLCExt, Toolbox, Naturals, TLC, BlocLexer

expression == 
    [
        \* To hide variables of the `BlocLexer` spec from the error trace,
        \* remove the variables below.  The trace will be written in the order
        \* of the fields of this record.
        text |-> text
        ,cuts |-> cuts
        
        \* Put additional constant-, state-, and action-level expressions here:
        \* ,_stateNumber |-> _TEPosition
        \* ,_textUnchanged |-> text = text'
        
        \* Format the `text` variable as Json value.
        \* ,_textJson |->
        \*     LET J == INSTANCE Json
        \*     IN J!ToJson(text)
        
        \* Lastly, you may build expressions over arbitrary sets of states by
        \* leveraging the _TETrace operator.  For example, this is how to
        \* count the number of times a spec variable changed up to the current
        \* state in the trace.
        \* ,_textModCount |->
        \*     LET F[s \in DOMAIN _TETrace] ==
        \*         IF s = 1 THEN 0
        \*         ELSE IF _TETrace[s].text # _TETrace[s-1].text
        \*             THEN 1 + F[s-1] ELSE F[s-1]
        \*     IN F[_TEPosition - 1]
    ]

=============================================================================



Parsing and semantic processing can take forever if the trace below is long.
 In this case, it is advised to uncomment the module below to deserialize the
 trace from a generated binary file.

\*
\*---- MODULE BlocLexer_TETrace ----
\*EXTENDS IOUtils, TLC, BlocLexer
\*
\*trace == IODeserialize("BlocLexer_TTrace_1791018060.bin", TRUE)
\*
\*=============================================================================
\*

---- MODULE BlocLexer_TETrace ----
EXTENDS TLC, BlocLexer

trace == 
    <<
    ([text |-> <<"=", "=">>,cuts |-> {}]),
    ([text |-> <<"=", "=">>,cuts |-> {1}])
    >>
----


=============================================================================

---- CONFIG BlocLexer_TTrace_1791018060 ----
CONSTANTS
    MaxLen = 3

INVARIANT
    _inv

CHECK_DEADLOCK
    \* CHECK_DEADLOCK off because of PROPERTY or INVARIANT above.
    FALSE

INIT
    _init

NEXT
    _next

CONSTANT
    _TETrace <- _trace

ALIAS
    _expression
=============================================================================
\* Generated on Sat Oct 03 09:01:02 UTC 2026