SPECIFICATION Spec
CONSTANTS Fns = {"f", "g"}
          Limit = 4
          MaxCtx = 5
          Dev = {"leak_on_bind"}
INVARIANT BodyStartsClean
INVARIANT NoContextLost
INVARIANT LimitIsExact
CHECK_DEADLOCK FALSE
