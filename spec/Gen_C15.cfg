SPECIFICATION SimSpec
INVARIANT Emit
CHECK_DEADLOCK FALSE
