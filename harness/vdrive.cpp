// vdrive: replays scenario NDJSON (produced by TLC from the specification) on the real BLOC
// library built from /repo's working tree, and records one observation per step.
//
//   vdrive <scenarios.ndjson> <obs.ndjson> [batch]
//
// scenario line: {"id":N,"steps":[{"op":"exec","ctx":0,"text":"..."}, ...]}
// observation line: {"id":N,"obs":[{...}, ...],"end":"ok"|"crash"|"timeout","san":"..."}
//
// Every batch of scenarios runs in a forked child. A child that dies (signal, sanitizer abort,
// watchdog) is restarted after the scenario it died in, which is recorded with end != "ok".
#include <blocc/context.h>
#include <blocc/parser.h>
#include <blocc/string_reader.h>
#include <blocc/executable.h>
#include <blocc/exception_parse.h>
#include <blocc/exception_runtime.h>
#include <blocc/collection.h>
#include <blocc/tuple.h>
#include <blocc/complex.h>
#include <blocc/functor_manager.h>
#include <blocc/plugin_manager.h>
#include <blocc/bloc_capi.h>
#include "vjson.h"

#include <cmath>
#include <fstream>
#include <iostream>
#include <sstream>
#include <unistd.h>
#include <sys/wait.h>
#include <sys/mman.h>
#include <signal.h>
#include <fcntl.h>
#include <pthread.h>
#include <sqlite3.h>

using namespace bloc;

static const char* majorName(Type::TypeMajor m) {
  switch (m) {
  case Type::NO_TYPE: return "undef"; case Type::BOOLEAN: return "bool"; case Type::INTEGER: return "int";
  case Type::NUMERIC: return "dec"; case Type::LITERAL: return "str"; case Type::COMPLEX: return "obj";
  case Type::TABCHAR: return "raw"; case Type::ROWTYPE: return "row"; case Type::POINTER: return "ptr";
  case Type::IMAGINARY: return "cpx";
  }
  return "?";
}

static std::string typeJson(const Type& t, const TupleDecl::Decl* decl) {
  std::string o = "{\"m\":\""; o += majorName(t.major()); o += "\",\"l\":" + std::to_string((int)t.level()) + ",\"d\":[";
  if (t.major() == Type::ROWTYPE && decl) {
    bool f = true;
    for (const Type& it : *decl) { if (!f) o += ','; f = false; o += '"'; o += majorName(it.major()); o += '"'; }
  }
  o += "]";
  return o + "}";
}

static std::string intJson(int64_t v) {
  if (v > -1000000000LL && v < 1000000000LL) return "{\"t\":\"int\",\"v\":" + std::to_string(v) + "}";
  uint64_t u = (uint64_t)v;
  return "{\"t\":\"bigint\",\"w\":[" + std::to_string(u & 0xffff) + "," + std::to_string((u >> 16) & 0xffff) + "," +
         std::to_string((u >> 32) & 0xffff) + "," + std::to_string((u >> 48) & 0xffff) + "]}";
}

static std::string decJson(double d) {
  double h = d * 2.0;
  if (std::isfinite(h) && h > -1e9 && h < 1e9 && h == (double)(long long)h && !(h == 0 && std::signbit(d)))
    return "{\"t\":\"dec\",\"h\":" + std::to_string((long long)h) + "}";
  uint64_t u; memcpy(&u, &d, 8);
  return "{\"t\":\"bigdec\",\"w\":[" + std::to_string(u & 0xffff) + "," + std::to_string((u >> 16) & 0xffff) + "," +
         std::to_string((u >> 32) & 0xffff) + "," + std::to_string((u >> 48) & 0xffff) + "]}";
}

static std::string strJson(const char* tag, const std::string& s) {
  std::string o = "{\"t\":\""; o += tag; o += "\",";
  if (vj::plain(s)) { o += "\"v\":"; vj::esc(o, s); }
  else { o += "\"b\":" + vj::bytes(s.data(), s.size()); }
  return o + "}";
}

static std::string valueJson(const Value& cv, int depth = 0) {
  Value& v = const_cast<Value&>(cv.deref_value());
  const Type& t = v.type();
  if (depth > 8) return "{\"t\":\"deep\"}";
  if (v.isNull()) {
    return std::string("{\"t\":\"null\",\"ty\":") + typeJson(t, nullptr) + "}";
  }
  if (t.level() > 0) {
    Collection* c = v.collection();
    std::string o = "{\"t\":\"tab\",\"ty\":" + typeJson(c->table_type(), &c->table_decl()) + ",\"v\":[";
    for (size_t i = 0; i < c->size(); ++i) { if (i) o += ','; o += valueJson((*c)[i], depth + 1); }
    return o + "]}";
  }
  switch (t.major()) {
  case Type::BOOLEAN: return std::string("{\"t\":\"bool\",\"v\":") + (*v.boolean() ? "true" : "false") + "}";
  case Type::INTEGER: return intJson(*v.integer());
  case Type::NUMERIC: return decJson(*v.numeric());
  case Type::LITERAL: return strJson("str", *v.literal());
  case Type::TABCHAR: { TabChar* tc = v.tabchar(); return "{\"t\":\"raw\",\"b\":" + vj::bytes(tc->data(), tc->size()) + "}"; }
  case Type::ROWTYPE: {
    Tuple* tu = v.tuple();
    std::string o = "{\"t\":\"tup\",\"ty\":" + typeJson(tu->tuple_type(), &tu->tuple_decl()) + ",\"v\":[";
    for (size_t i = 0; i < tu->size(); ++i) { if (i) o += ','; o += valueJson((*tu)[i], depth + 1); }
    return o + "]}";
  }
  case Type::IMAGINARY: { Imaginary* im = v.imaginary(); return "{\"t\":\"cpx\",\"a\":" + decJson(im->a) + ",\"b\":" + decJson(im->b) + "}"; }
  case Type::COMPLEX: {
    Complex* c = v.complex();
    char b[64]; snprintf(b, sizeof b, "%p", c->instance());
    std::string nm = c->typeIdName();
    if (nm == "vobj") {
      /* the verification module's objects carry their identity as first field */
      long id = *static_cast<long*>(c->instance());
      extern long g_vobj_base_get();
      return "{\"t\":\"obj\",\"id\":" + std::to_string(id - g_vobj_base_get()) + "}";
    }
    return std::string("{\"t\":\"obj\",\"mod\":") + std::to_string((int)c->typeId()) + ",\"modn\":" + vj::q(nm) + ",\"h\":\"" + b + "\"}";
  }
  default: return "{\"t\":\"other\"}";
  }
}


// ---- 64-bit operands / results for the arithmetic oracle (8 little-endian bytes) --------------
static std::string b8Json(uint64_t u) {
  std::string o = "[";
  for (int i = 0; i < 8; ++i) { if (i) o += ','; o += std::to_string((unsigned)((u >> (8 * i)) & 0xff)); }
  return o + "]";
}
static uint64_t b8Val(const vj::Val* a) {
  uint64_t u = 0;
  if (a) for (size_t i = 0; i < a->a.size() && i < 8; ++i) u |= (uint64_t)(a->a[i]->n & 0xff) << (8 * i);
  return u;
}
// exact description of a double: class, sign, odd 53-bit mantissa (as 8 bytes) and binary exponent
static std::string dblJson(double d) {
  if (std::isnan(d)) return "{\"t\":\"dec\",\"cls\":\"nan\",\"s\":0,\"m\":[0,0,0,0,0,0,0,0],\"e\":0}";
  if (std::isinf(d)) return std::string("{\"t\":\"dec\",\"cls\":\"inf\",\"s\":") + (d < 0 ? "1" : "0") + ",\"m\":[0,0,0,0,0,0,0,0],\"e\":0}";
  int sgn = std::signbit(d) ? 1 : 0;
  double a = std::fabs(d);
  int e = 0; uint64_t m = 0;
  if (a != 0) {
    double f = std::frexp(a, &e);           // a = f * 2^e, 0.5 <= f < 1
    m = (uint64_t)std::ldexp(f, 53); e -= 53;
    while (m && (m & 1) == 0) { m >>= 1; ++e; }
  }
  return std::string("{\"t\":\"dec\",\"cls\":\"fin\",\"s\":") + std::to_string(sgn) + ",\"m\":" + b8Json(m) + ",\"e\":" + std::to_string(e) + "}";
}
static Value operandValue(const vj::Val* o) {
  std::string k = o->str("k");
  if (k == "i") return Value(Integer((int64_t)b8Val(o->get("b8"))));
  if (k == "ni") return Value(Value::type_integer);
  if (k == "nd") return Value(Value::type_numeric);
  if (k == "n") return Value();
  if (k == "d") {
    std::string cls = o->str("cls", "fin");
    if (cls == "nan") return Value(Numeric(std::nan("")));
    if (cls == "inf") return Value(Numeric(o->num("s") ? -INFINITY : INFINITY));
    double d = std::ldexp((double)b8Val(o->get("m")), (int)o->num("e"));
    return Value(Numeric(o->num("s") ? -d : d));
  }
  return Value();
}
static std::string resultJson(Value& v) {
  Value& d = v.deref_value();
  if (d.isNull()) return std::string("{\"t\":\"null\",\"ty\":") + typeJson(d.type(), nullptr) + "}";
  if (d.type().level() == 0 && d.type() == Type::INTEGER) return "{\"t\":\"int\",\"b8\":" + b8Json((uint64_t)*d.integer()) + "}";
  if (d.type().level() == 0 && d.type() == Type::NUMERIC) return dblJson(*d.numeric());
  return valueJson(d);
}

struct Ctx {
  Context* ctx = nullptr;
  int fd = -1;            // memfd receiving the context's output
  off_t rd = 0;           // bytes already consumed
  StringReader* ireader = nullptr;
  Parser* iparser = nullptr;                 // interactive parser (stepwise mode)
  std::vector<Executable*> execs;            // kept alive like a host would
  std::vector<const Statement*> stmts;       // statements run stepwise (kept alive like bloc -i)
  Executable* last = nullptr;
};

static std::map<int, Ctx> g_ctx;
static std::map<int, std::string> g_saved;   // text produced by the last unparse of each context

static std::string drainOut(Ctx& c) {
  if (!c.ctx || c.fd < 0) return "";
  if (c.ctx->ctxout()) fflush(c.ctx->ctxout());
  off_t end = lseek(c.fd, 0, SEEK_END);
  std::string s;
  if (end > c.rd) {
    s.resize(end - c.rd);
    ssize_t n = pread(c.fd, &s[0], s.size(), c.rd);
    if (n < 0) n = 0;
    s.resize(n);
    c.rd = end;
  }
  return s;
}

static Ctx& getCtx(int id, bool trusted = false) {
  Ctx& c = g_ctx[id];
  if (!c.ctx) {
    c.fd = memfd_create("vout", 0);
    c.ctx = new Context(c.fd, c.fd);
    c.ctx->trusted(trusted);
    c.rd = 0;
  }
  return c;
}

static void freeCtx(int id) {
  auto it = g_ctx.find(id);
  if (it == g_ctx.end()) return;
  Ctx& c = it->second;
  if (c.iparser) delete c.iparser;
  if (c.ireader) delete c.ireader;
  for (auto e : c.execs) delete e;
  for (auto s : c.stmts) delete s;
  if (c.ctx) delete c.ctx;
  if (c.fd >= 0) close(c.fd);
  g_ctx.erase(it);
}

static std::string stateJson(Context& ctx) {
  std::string o = "\"ctrl\":" + std::to_string(ctx.verifControlDepth()) +
    ",\"lvl\":" + std::to_string(ctx.execLevel()) +
    ",\"brk\":" + (ctx.breakCondition() ? "true" : "false") +
    ",\"cont\":" + (ctx.continueCondition() ? "true" : "false") +
    ",\"ret\":" + (ctx.returnCondition() ? "true" : "false") +
    ",\"undo\":" + std::to_string(ctx.verifBackedCount()) +
    ",\"parsing\":" + (ctx.parsing() ? "true" : "false");
  return o;
}

// does every element / item inside a container carry the owner flag (recursively)?
static bool elemsOwned(Value& v) {
  if (v.isNull()) return true;
  if (v.type().level() > 0) {
    Collection* c = v.collection();
    for (size_t i = 0; i < c->size(); ++i) { Value& e = c->at(i); if (!e.lvalue() || !elemsOwned(e)) return false; }
  } else if (v.type().major() == Type::ROWTYPE) {
    Tuple* t = v.tuple();
    for (size_t i = 0; i < t->size(); ++i) { Value& e = t->at(i); if (!e.lvalue() || !elemsOwned(e)) return false; }
  }
  return true;
}

static std::string dumpJson(Context& ctx) {
  std::string o = "\"vars\":[";
  size_t n = ctx.verifSymbolCount();
  for (size_t i = 0; i < n; ++i) {
    Symbol& s = ctx.getSymbol(i);
    if (i) o += ',';
    o += "{\"n\":" + vj::q(s.name()) + ",\"sty\":" + typeJson(s, &s.tuple_decl()) +
         ",\"safe\":" + (s.safety() ? "true" : "false") + ",\"lock\":" + (s.locked() ? "true" : "false") +
         ",\"own\":" + (ctx.loadVariable(i).lvalue() ? "true" : "false") + ",\"eown\":" + (elemsOwned(ctx.loadVariable(i)) ? "true" : "false") +
         ",\"val\":" + valueJson(ctx.loadVariable(i)) + "}";
  }
  o += "],\"funcs\":[";
  bool f = true;
  for (const FunctorManager::Entry& e : ctx.functorManager().declarations()) {
    if (!f) o += ','; f = false;
    size_t cache = 0; for (auto c : e.ctx_cache) { (void)c; ++cache; }
    o += "{\"n\":" + vj::q(e.functor->name) + ",\"ar\":" + std::to_string(e.functor->params.size()) +
         ",\"body\":" + (e.functor->body ? "true" : "false") + ",\"cache\":" + std::to_string(cache) + "}";
  }
  return o + "]";
}

// the name a `when` clause would match for this error
static std::string errName(const RuntimeError& re) {
  switch (re.no) {
  case EXC_RT_DIVIDE_BY_ZERO: return "DIVIDE_BY_ZERO";
  case EXC_RT_OUT_OF_RANGE: return "OUT_OF_RANGE";
  case EXC_RT_USER_S: return re.what();
  default: return "";
  }
}

static std::string retJson(Context& ctx) {
  Value* r = ctx.dropReturned();
  if (!r) return "{\"t\":\"none\"}";
  std::string o = valueJson(*r);
  delete r;
  return o;
}

// a stream reader that delivers the text in the fragments of a schedule (sizes; the last size repeats)
class FragReader : public Parser::StreamReader {
  std::string _text; size_t _pos = 0; std::vector<int> _sizes; size_t _k = 0;
public:
  FragReader(const std::string& t, const std::vector<int>& sizes) : _text(t), _sizes(sizes) {}
  int read(Parser*, char* buf, int max_size) override {
    if (_pos >= _text.size()) return 0;
    int want = _sizes.empty() ? max_size : _sizes[_k < _sizes.size() ? _k : _sizes.size() - 1];
    ++_k;
    if (want < 1) want = 1;
    if (want > max_size) want = max_size;
    int n = 0;
    /* like the built-in readers, carriage returns are dropped by the reader */
    while (n < want && _pos < _text.size()) { char ch = _text[_pos++]; if (ch != '\r') buf[n++] = ch; }
    if (n == 0 && _pos < _text.size()) return read(nullptr, buf, max_size);
    return n;
  }
};
static std::vector<int> fragSizes(const vj::Val& st) {
  std::vector<int> v;
  if (const vj::Val* f = st.get("frags")) for (auto& x : f->a) v.push_back((int)x->n);
  return v;
}
// text given as a JSON string or, for arbitrary bytes / long generated lines, by a recipe
static std::string textOf(const vj::Val& st) {
  std::string t = st.str("text");
  if (const vj::Val* pad = st.get("padline")) {
    /* a comment of pad bytes in front of the text on the same line: moves the text across the internal buffer boundary */
    long n = (long)pad->n;
    std::string c = "/*";
    while ((long)c.size() < n - 2) c += 'x';
    c += "*/";
    t = c + t;
  }
  return t;
}

// ---- the real bloc command, run as a child process ---------------------------------------------
#include <sys/stat.h>
static std::string slurp(const std::string& path) {
  std::ifstream f(path, std::ios::binary); std::stringstream ss; ss << f.rdbuf(); return ss.str();
}
// removes the decorations of the interactive mode (banner, prompts, "Elapsed:" lines, "Error: ..." reports);
// counts the reports
static std::string cleanBody(const std::string& t, int& nerr, int& nperr);
static std::string cleanInteractive(const std::string& raw, int& nerr, int& nperr) {
  std::string t = raw;
  /* banner: first two lines */
  for (int k = 0; k < 2; ++k) { size_t e = t.find('\n'); if (e == std::string::npos) break; t.erase(0, e + 1); }
  return cleanBody(t, nerr, nperr);
}
static std::string cleanBody(const std::string& t, int& nerr, int& nperr) {
  nerr = 0; nperr = 0;
  std::string out;
  size_t i = 0;
  while (i < t.size()) {
    if (t.compare(i, 4, ">>> ") == 0) { i += 4; continue; }
    if (t.compare(i, 4, "... ") == 0) { i += 4; continue; }
    if (t.compare(i, 10, "\nElapsed: ") == 0) { size_t e = t.find('\n', i + 1); i = (e == std::string::npos) ? t.size() : e + 1; continue; }
    if (t.compare(i, 7, "Error: ") == 0 || t.compare(i, 7, "Error (") == 0) {
      if (t[i + 6] == '(') ++nperr; else ++nerr;
      /* a run-time report has no newline of its own (the Elapsed line follows); a compile report ends its line */
      size_t e = t.find('\n', i);
      if (t[i + 6] == '(') { i = (e == std::string::npos) ? t.size() : e + 1; }
      else { i = (e == std::string::npos) ? t.size() : e; }
      continue;
    }
    out += t[i++];
  }
  return out;
}

static std::string runCli(const vj::Val& st) {
  const char* wd = getenv("VDRIVE_WORK");
  const char* bloc = getenv("VDRIVE_BLOC");
  std::string dir = std::string(wd ? wd : "/tmp") + "/cli." + std::to_string((long)getpid());
  mkdir(dir.c_str(), 0755);
  std::string mode = st.str("mode", "file");
  std::string text = textOf(st);
  std::string prog = dir + "/prog.bloc", so = dir + "/stdout", se = dir + "/stderr", of = dir + "/out.txt", si = dir + "/stdin";
  { std::ofstream f(prog, std::ios::binary); f << text; }
  std::string savedpath = dir + "/saved.bloc";
  /* a session: commands of the interactive mode, each followed by a marker (an expression command that prints "@@k") so that the
     output can be cut into one piece per command; `save` (and the hidden save before `list`) writes a file of its own */
  size_t ncmds = 0;
  std::string session;
  if (mode == "session") {
    std::map<long, size_t> lastk;
    if (const vj::Val* cs = st.get("cmds")) for (auto& cp : cs->a) {
      const vj::Val& c = *cp; ++ncmds;
      std::string k = c.str("c", ""), fk = dir + "/" + std::to_string(ncmds) + ".sav";
      if (k == "stmt") session += c.str("text", "") + "\n";
      else if (k == "run" || k == "clear" || k == "dump") session += k + "\n";
      else if (k == "list") session += "save \"" + fk + "\"\nlist\n";
      else if (k == "save") { session += "save \"" + fk + "\"\n"; lastk[c.num("f", 0)] = ncmds; }
      else if (k == "load") { auto it = lastk.find(c.num("f", 0)); session += "load \"" + (it == lastk.end() ? dir + "/none.sav" : dir + "/" + std::to_string(it->second) + ".sav") + "\"\n"; }
      else if (k == "expr") session += "= " + c.str("text", "") + "\n\n";
      session += "= \"@@" + std::to_string(ncmds) + "\"\n\n";
    }
  }
  { std::ofstream f(si, std::ios::binary); if (mode == "stdin" || mode == "inter") f << text; else if (mode == "save") f << text << "\nsave \"" << savedpath << "\"\n"; else if (mode == "session") f << session; }
  unlink(savedpath.c_str());
  unlink(of.c_str());
  std::vector<std::string> argv;
  argv.push_back(bloc ? bloc : "bloc");
  if (mode == "out") argv.push_back("--out=" + of);
  if (mode == "expr") { argv.push_back("-e"); argv.push_back(text); }
  else if (mode == "inter" || mode == "save" || mode == "session") argv.push_back("-i");
  else if (mode == "stdin") argv.push_back("-");
  else argv.push_back(prog);
  if (const vj::Val* a = st.get("args")) for (auto& x : a->a) argv.push_back(x->s);
  pid_t pid = fork();
  if (pid == 0) {
    int fi = open(si.c_str(), O_RDONLY); int fo = open(so.c_str(), O_WRONLY | O_CREAT | O_TRUNC, 0644); int fe = open(se.c_str(), O_WRONLY | O_CREAT | O_TRUNC, 0644);
    dup2(fi, 0); dup2(fo, 1); dup2(fe, 2);
    std::vector<char*> av; for (auto& a : argv) av.push_back(const_cast<char*>(a.c_str())); av.push_back(nullptr);
    alarm(20);
    execv(av[0], av.data());
    _exit(127);
  }
  int status = 0; waitpid(pid, &status, 0);
  std::string out = slurp(so), err = slurp(se), file = slurp(of);
  struct stat sb; bool hasfile = stat(of.c_str(), &sb) == 0;
  std::string o = "\"status\":" + std::to_string(WIFEXITED(status) ? WEXITSTATUS(status) : -1) +
                  ",\"sig\":" + std::to_string(WIFSIGNALED(status) ? WTERMSIG(status) : 0);
  /* sanitizer reports of the child count as a crash class of their own */
  bool san = err.find("Sanitizer") != std::string::npos || err.find("runtime error:") != std::string::npos;
  o += std::string(",\"san\":") + (san ? "true" : "false");
  if (mode == "save") {
    /* the program entered statement by statement was saved by the `save` command: the saved file is then run as a script */
    std::string saved = slurp(savedpath);
    std::string so2 = dir + "/stdout2";
    pid_t p2 = fork();
    if (p2 == 0) {
      int fo = open(so2.c_str(), O_WRONLY | O_CREAT | O_TRUNC, 0644); int fe = open("/dev/null", O_WRONLY);
      dup2(fo, 1); dup2(fe, 2); alarm(20);
      execl(argv[0].c_str(), argv[0].c_str(), savedpath.c_str(), (char*)nullptr);
      _exit(127);
    }
    int st2 = 0; waitpid(p2, &st2, 0);
    o += ",\"saved_text\":" + vj::q(saved) + ",\"saved_out\":" + vj::q(slurp(so2)) + ",\"saved_status\":" + std::to_string(WIFEXITED(st2) ? WEXITSTATUS(st2) : -1);
    unlink(so2.c_str()); unlink(savedpath.c_str());
  }
  if (mode == "session") {
    std::string t = out;
    for (int k = 0; k < 2; ++k) { size_t e = t.find('\n'); if (e == std::string::npos) break; t.erase(0, e + 1); }
    o += ",\"cmds\":[";
    size_t pos0 = 0;
    for (size_t k = 1; k <= ncmds; ++k) {
      std::string mk = "@@" + std::to_string(k) + "\n";
      size_t m = t.find(mk, pos0);
      if (m == std::string::npos) break;
      int nerr = 0, nperr = 0;
      std::string piece = cleanBody(t.substr(pos0, m - pos0), nerr, nperr);
      std::string fk = dir + "/" + std::to_string(k) + ".sav";
      struct stat sb2; bool hf = stat(fk.c_str(), &sb2) == 0;
      if (k > 1) o += ",";
      o += "{\"out\":" + vj::q(piece) + ",\"nerr\":" + std::to_string(nerr) + ",\"nperr\":" + std::to_string(nperr) +
           ",\"hasfile\":" + (hf ? "true" : "false") + ",\"file\":" + vj::q(hf ? slurp(fk) : std::string()) + "}";
      pos0 = m + mk.size();
    }
    o += "]";
    for (size_t k = 1; k <= ncmds; ++k) unlink((dir + "/" + std::to_string(k) + ".sav").c_str());
  }
  if (mode == "inter" || mode == "save") {
    int nerr = 0, nperr = 0;
    o += ",\"out\":" + vj::q(cleanInteractive(out, nerr, nperr)) + ",\"nerr\":" + std::to_string(nerr) + ",\"nperr\":" + std::to_string(nperr);
  } else o += ",\"out\":" + vj::q(out);
  /* stderr shape: empty / has "Error (line:col)" / other */
  bool pos = false;
  { size_t p0 = err.find("Error ("); if (p0 != std::string::npos) { size_t c = err.find(':', p0), e = err.find(')', p0); pos = c != std::string::npos && e != std::string::npos && c < e; } }
  long eline = 0, ecol = 0;
  { size_t p0 = err.find("Error ("); if (p0 != std::string::npos) sscanf(err.c_str() + p0, "Error (%ld:%ld)", &eline, &ecol); }
  o += std::string(",\"err_empty\":") + (err.empty() ? "true" : "false") + ",\"err_pos\":" + (pos ? "true" : "false") + ",\"err_line\":" + std::to_string(eline) + ",\"err_col\":" + std::to_string(ecol) + ",\"err\":" + vj::q(err.substr(0, 200));
  o += std::string(",\"hasfile\":") + (hasfile ? "true" : "false") + ",\"file\":" + vj::q(file);
  unlink(prog.c_str()); unlink(so.c_str()); unlink(se.c_str()); unlink(of.c_str()); unlink(si.c_str()); rmdir(dir.c_str());
  return o;
}

// data races reported by ThreadSanitizer so far (when built with it): the functions on top of the two stacks
static std::string tsanRaces() {
      std::string races = "[";
  if (const char* lp = getenv("VDRIVE_TSAN_LOG")) {
    std::string log = slurp(std::string(lp) + "." + std::to_string((long)getpid()));
    size_t p0 = 0; bool first = true;
    while ((p0 = log.find("WARNING: ThreadSanitizer: data race", p0)) != std::string::npos) {
      size_t endw = log.find("SUMMARY: ThreadSanitizer", p0);
      /* the two accesses: the first frame of the first two stacks, as source file:line */
      size_t q = p0; int got = 0;
      while (got < 2 && (q = log.find("#0 ", q)) != std::string::npos && (endw == std::string::npos || q < endw)) {
        size_t e = log.find('\n', q);
        std::string line = log.substr(q, e - q);
        size_t r = line.find("/repo/");
        std::string loc = "?";
        if (r != std::string::npos) { size_t sp = line.find(' ', r); loc = line.substr(r + 6, sp - r - 6); size_t c2 = loc.rfind(':'); if (c2 != std::string::npos) loc = loc.substr(0, c2); }
        else { size_t sp = line.find(' ', 3); loc = line.substr(3, sp == std::string::npos ? 40 : sp - 3); }
        if (!first) races += ','; first = false;
        races += vj::q(loc);
        ++got; q = e;
      }
      p0 += 10;
    }
  }
  races += "]";
  return races;
}

// a private scratch directory of this worker process (removed at the end of every scenario)
static std::string g_tmpdir;
static std::string tmpDir() {
  if (g_tmpdir.empty()) {
    const char* wd = getenv("VDRIVE_WORK");
    g_tmpdir = std::string(wd ? wd : "/tmp") + "/tmp." + std::to_string((long)getpid());
    mkdir(g_tmpdir.c_str(), 0755);
  }
  return g_tmpdir;
}
static void cleanTmp() {
  if (g_tmpdir.empty()) return;
  std::string cmd = "rm -rf '" + g_tmpdir + "'";
  if (system(cmd.c_str()) != 0) {}
  g_tmpdir.clear();
}

// ---- C API handle machine (C15): only functions of bloc_capi.h are used on these handles ---------
struct CH { std::map<std::string, bloc_context*> ctx; std::map<std::string, int> ctxfd; std::map<std::string, off_t> ctxrd;
            std::map<std::string, bloc_value*> val;      /* caller owned */
            std::map<std::string, bloc_value*> lib;      /* library owned */
            std::map<std::string, bloc_executable*> exe; std::map<std::string, bloc_expression*> expr; };
static CH g_ch;

// a value seen ONLY through the typed accessors of the C API; also which accessors accepted it
static std::string capiValue(bloc_value* v, int depth = 0) {
  if (!v) return "{\"major\":-1,\"ndim\":0,\"isnull\":false,\"nacc\":0,\"datanull\":false,\"acc\":\"nullptr\",\"val\":{\"t\":\"nullptr\"}}";
  bloc_type ty = bloc_value_type(v);
  bool isnull = bloc_value_isnull(v) != bloc_false;
  bloc_bool* pb = nullptr; int64_t* pi = nullptr; double* pd = nullptr; const char* ps = nullptr; const char* pr = nullptr; unsigned rl = 0;
  bloc_array* pa = nullptr; bloc_row* pw = nullptr; bloc_pair* pp = nullptr;
  bool ab = bloc_boolean(v, &pb), ai = bloc_integer(v, &pi), ad = bloc_numeric(v, &pd), as = bloc_literal(v, &ps), ar = bloc_tabchar(v, &pr, &rl),
       at = bloc_table(v, &pa), aw = bloc_tuple(v, &pw), ac = bloc_imaginary(v, &pp);
  int nacc = ab + ai + ad + as + ar + at + aw + ac;
  std::string o = "{\"major\":" + std::to_string((int)ty.major) + ",\"ndim\":" + std::to_string(ty.ndim) + ",\"isnull\":" + (isnull ? "true" : "false") + ",\"nacc\":" + std::to_string(nacc);
  /* for a null value the matching accessor succeeds and yields NULL data */
  /* (an empty byte array has no data to point to: NULL with length 0 is not a null value) */
  bool datanull = (ab && !pb) || (ai && !pi) || (ad && !pd) || (as && !ps) || (ar && !pr && (isnull || rl != 0)) || (at && !pa) || (aw && !pw) || (ac && !pp);
  const char* acc = ab ? "bool" : ai ? "int" : ad ? "dec" : as ? "str" : ar ? "raw" : at ? "tab" : aw ? "row" : ac ? "cpx" : "none";
  o += std::string(",\"datanull\":") + (datanull ? "true" : "false") + ",\"acc\":\"" + acc + "\",\"val\":";
  if (isnull) o += "{\"t\":\"null\"}";
  else if (ab && pb) o += std::string("{\"t\":\"bool\",\"v\":") + (*pb ? "true" : "false") + "}";
  else if (ai && pi) o += intJson(*pi);
  else if (ad && pd) o += decJson(*pd);
  else if (as && ps) o += strJson("str", std::string(ps));
  else if (ar && (pr || rl == 0)) o += "{\"t\":\"raw\",\"b\":" + vj::bytes(pr ? pr : "", rl) + "}";
  else if (at && pa && depth < 4) {
    unsigned n = bloc_array_size(pa); o += "{\"t\":\"tab\",\"v\":[";
    for (unsigned i = 0; i < n; ++i) { bloc_value* it = nullptr; if (i) o += ','; if (bloc_array_item(pa, i, &it)) o += capiValue(it, depth + 1); else o += "{\"t\":\"NOITEM\"}"; }
    bloc_value* beyond = nullptr; bool over = bloc_array_item(pa, n, &beyond);
    o += std::string("],\"over\":") + (over ? "true" : "false") + "}";
  }
  else if (aw && pw && depth < 4) {
    unsigned n = bloc_tuple_size(pw); o += "{\"t\":\"tup\",\"v\":[";
    for (unsigned i = 0; i < n; ++i) { bloc_value* it = nullptr; if (i) o += ','; if (bloc_tuple_item(pw, i, &it)) o += capiValue(it, depth + 1); else o += "{\"t\":\"NOITEM\"}"; }
    o += "]}";
  }
  else o += "{\"t\":\"other\"}";
  return o + "}";
}
static std::string capiOut(const std::string& c) {
  bloc_context* cx = g_ch.ctx[c];
  if (!cx) return "";
  FILE* f = bloc_ctx_out(cx); if (f) fflush(f);
  int fd = g_ch.ctxfd[c]; off_t end = lseek(fd, 0, SEEK_END); std::string s;
  off_t& rd = g_ch.ctxrd[c];
  if (end > rd) { s.resize(end - rd); if (pread(fd, &s[0], s.size(), rd) < 0) s.clear(); rd = end; }
  return s;
}
static std::string doCapi(const vj::Val& st) {
  std::string a = st.str("a"), c = st.str("c"), h = st.str("h");
  std::string o = "{\"op\":\"capi\",\"a\":" + vj::q(a) + ",\"oc\":\"ok\"";
  if (a == "ctx_new") { int fd = memfd_create("cv", 0); g_ch.ctxfd[c] = fd; g_ch.ctxrd[c] = 0; g_ch.ctx[c] = bloc_create_context(fd, fd); o += std::string(",\"ok\":") + (g_ch.ctx[c] ? "true" : "false"); }
  else if (a == "ctx_clone") { int fd = memfd_create("cv", 0); g_ch.ctxfd[c] = fd; g_ch.ctxrd[c] = 0; g_ch.ctx[c] = bloc_clone_context2(g_ch.ctx[st.str("g")], fd, fd); o += std::string(",\"ok\":") + (g_ch.ctx[c] ? "true" : "false"); }
  else if (a == "ctx_free") { bloc_free_context(g_ch.ctx[c]); g_ch.ctx.erase(c); close(g_ch.ctxfd[c]); }
  else if (a == "ctx_purge") { bloc_ctx_purge(g_ch.ctx[c]); }
  else if (a == "val_new") {
    std::string k = st.str("kind"); bloc_value* v = nullptr;
    if (k == "int") v = bloc_create_integer(st.num("iv"));
    else if (k == "dec") v = bloc_create_numeric((double)st.num("iv") / 2.0);
    else if (k == "str") v = bloc_create_literal(st.str("sv").c_str());
    else if (k == "bool") v = bloc_create_boolean(st.num("iv") ? bloc_true : bloc_false);
    else if (k == "raw") { std::string b; if (const vj::Val* bb = st.get("bv")) for (auto& x : bb->a) b += (char)x->n; v = bloc_create_tabchar(b.data(), (unsigned)b.size()); }
    else if (k == "null_bool") v = bloc_create_null(BOOLEAN);
    else if (k == "null_int") v = bloc_create_null(INTEGER);
    else if (k == "null_dec") v = bloc_create_null(NUMERIC);
    else if (k == "null_str") v = bloc_create_null(LITERAL);
    else if (k == "null_raw") v = bloc_create_null(TABCHAR);
    else if (k == "null_row") v = bloc_create_null(ROWTYPE);
    else if (k == "null_undef") v = bloc_create_null(NO_TYPE);
    else if (k == "str_from_null") v = bloc_create_literal(nullptr);
    g_ch.val[h] = v; o += ",\"val\":" + capiValue(v);
  }
  else if (a == "val_free") { bloc_free_value(g_ch.val[h]); g_ch.val.erase(h); }
  else if (a == "val_null") { bloc_assign_null(g_ch.val[h]); o += ",\"val\":" + capiValue(g_ch.val[h]); }
  else if (a == "val_setstr") { bloc_bool r = bloc_assign_literal(g_ch.val[h], st.str("sv").c_str()); o += std::string(",\"ret\":") + (r ? "true" : "false") + ",\"val\":" + capiValue(g_ch.val[h]); }
  else if (a == "store") {
    bloc_value* v = g_ch.val[h];
    bloc_symbol* sym = bloc_ctx_register_symbol(g_ch.ctx[c], st.str("n").c_str(), bloc_value_type(v));
    bloc_bool r = sym ? bloc_ctx_store_variable(g_ch.ctx[c], sym, v) : bloc_false;
    o += std::string(",\"sym\":") + (sym ? "true" : "false") + ",\"ret\":" + (r ? "true" : "false") + ",\"errno\":" + std::to_string(bloc_errno());
  }
  else if (a == "load") {
    bloc_symbol* sym = bloc_ctx_find_symbol(g_ch.ctx[c], st.str("n").c_str());
    bloc_value* v = sym ? bloc_ctx_load_variable(g_ch.ctx[c], sym) : nullptr;
    g_ch.lib[h] = v;
    o += std::string(",\"sym\":") + (sym ? "true" : "false") + ",\"val\":" + capiValue(v);
  }
  else if (a == "lib_setstr") { bloc_bool r = bloc_assign_literal(g_ch.lib[h], st.str("sv").c_str()); o += std::string(",\"ret\":") + (r ? "true" : "false") + ",\"val\":" + capiValue(g_ch.lib[h]); }
  else if (a == "lib_null") { bloc_assign_null(g_ch.lib[h]); o += ",\"val\":" + capiValue(g_ch.lib[h]); }
  else if (a == "read_lib") { o += ",\"val\":" + capiValue(g_ch.lib[h]); }
  else if (a == "read_val") { o += ",\"val\":" + capiValue(g_ch.val[h]); }
  else if (a == "parse_exec") {
    bloc_parsing_position pos; memset(&pos, 0, sizeof pos);
    bloc_executable* x = bloc_parse_executable(g_ch.ctx[c], st.str("text").c_str(), &pos);
    if (x) g_ch.exe[h] = x;
    o += std::string(",\"ok\":") + (x ? "true" : "false") + ",\"errno\":" + std::to_string(x ? 0 : bloc_errno()) + ",\"errstr\":" + vj::q(x ? "" : (bloc_strerror() ? bloc_strerror() : "<null>"));
  }
  else if (a == "run" || a == "run2") {
    bloc_bool r = (a == "run") ? bloc_execute(g_ch.exe[h]) : bloc_execute2(g_ch.ctx[c], g_ch.exe[h]);
    o += std::string(",\"ret\":") + (r ? "true" : "false") + ",\"errno\":" + std::to_string(r ? 0 : bloc_errno()) + ",\"errstr\":" + vj::q(r ? "" : (bloc_strerror() ? bloc_strerror() : "<null>")) + ",\"out\":" + vj::q(capiOut(c));
  }
  else if (a == "exec_free") { bloc_free_executable(g_ch.exe[h]); g_ch.exe.erase(h); }
  else if (a == "parse_expr") {
    bloc_expression* e = bloc_parse_expression(g_ch.ctx[c], st.str("text").c_str());
    if (e) g_ch.expr[h] = e;
    o += std::string(",\"ok\":") + (e ? "true" : "false") + ",\"errno\":" + std::to_string(e ? 0 : bloc_errno()) + ",\"errstr\":" + vj::q(e ? "" : (bloc_strerror() ? bloc_strerror() : "<null>"));
    if (e) { bloc_type t = bloc_expression_type(g_ch.ctx[c], e); o += ",\"major\":" + std::to_string((int)t.major) + ",\"ndim\":" + std::to_string(t.ndim); }
  }
  else if (a == "eval") {
    bloc_value* v = bloc_evaluate_expression(g_ch.ctx[c], g_ch.expr[st.str("g")]);
    g_ch.lib[h] = v;
    o += std::string(",\"ok\":") + (v ? "true" : "false") + ",\"errno\":" + std::to_string(v ? 0 : bloc_errno()) + ",\"errstr\":" + vj::q(v ? "" : (bloc_strerror() ? bloc_strerror() : "<null>")) + ",\"val\":" + capiValue(v);
  }
  else if (a == "expr_free") { bloc_free_expression(g_ch.expr[h]); g_ch.expr.erase(h); }
  else if (a == "drop") { bloc_value* v = bloc_drop_returned(g_ch.ctx[c]); if (v) g_ch.val[h] = v; o += std::string(",\"got\":") + (v ? "true" : "false") + ",\"val\":" + capiValue(v); }
  else if (a == "reset_stop") { bloc_reset_stop(g_ch.ctx[c]); }
  else if (a == "break") { bloc_break(g_ch.ctx[c]); }
  else if (a == "purge_wm") { bloc_ctx_purge_working_mem(g_ch.ctx[c]); }
  else o += ",\"oc\":\"badop\"";
  return o + "}";
}
static void capiForget() { g_ch = CH(); }

// environment-specific paths in generated texts: @MOD:name@ -> path of the module library, @INC@ -> an include file
static std::string subst(std::string t) {
  const char* mods = getenv("BLOC_MODULES");
  const char* inc = getenv("VDRIVE_INC");
  size_t p;
  while ((p = t.find("@MOD:")) != std::string::npos) {
    size_t e = t.find('@', p + 5);
    if (e == std::string::npos) break;
    std::string n = t.substr(p + 5, e - p - 5);
    t.replace(p, e - p + 1, std::string(mods ? mods : ".") + "/" + n + "/libbloc_" + n + ".so");
  }
  while ((p = t.find("@INC@")) != std::string::npos) t.replace(p, 5, inc ? inc : "/nonexistent");
  while ((p = t.find("@TMP@")) != std::string::npos) t.replace(p, 5, tmpDir());
  return t;
}

static std::string doStep(const vj::Val& st) {
  std::string op = st.str("op");
  if (op == "capi") return doCapi(st);
  if (op == "sqlitedump") {
    /* independent reader of the database file: the C library of SQLite itself, not the BLOC module */
    std::string path = subst(st.str("path"));
    sqlite3* db = nullptr;
    std::string rows = "[";
    std::string oc = "ok";
    if (sqlite3_open_v2(path.c_str(), &db, SQLITE_OPEN_READONLY, nullptr) != SQLITE_OK) oc = "open_failed";
    else {
      sqlite3_stmt* q = nullptr;
      if (sqlite3_prepare_v2(db, st.str("sql").c_str(), -1, &q, nullptr) != SQLITE_OK) oc = "prepare_failed";
      else {
        bool firstrow = true;
        while (sqlite3_step(q) == SQLITE_ROW) {
          if (!firstrow) rows += ','; firstrow = false;
          rows += "[";
          int nc = sqlite3_column_count(q);
          for (int c = 0; c < nc; ++c) {
            if (c) rows += ',';
            switch (sqlite3_column_type(q, c)) {
            case SQLITE_INTEGER: rows += intJson(sqlite3_column_int64(q, c)); break;
            case SQLITE_FLOAT: rows += decJson(sqlite3_column_double(q, c)); break;
            case SQLITE_TEXT: { const char* t = (const char*)sqlite3_column_text(q, c); int n = sqlite3_column_bytes(q, c); rows += strJson("str", std::string(t ? t : "", n)); break; }
            case SQLITE_BLOB: { const char* t = (const char*)sqlite3_column_blob(q, c); int n = sqlite3_column_bytes(q, c); rows += "{\"t\":\"raw\",\"b\":" + vj::bytes(t ? t : "", n) + "}"; break; }
            default: rows += "{\"t\":\"null\"}";
            }
          }
          rows += "]";
        }
        sqlite3_finalize(q);
      }
    }
    if (db) sqlite3_close(db);
    return "{\"op\":\"sqlitedump\",\"oc\":" + vj::q(oc) + ",\"rows\":" + rows + "]}";
  }
  if (op == "readfile") {
    /* independent reader: plain read of the file */
    std::string path = subst(st.str("path"));
    struct stat sb; bool ex = stat(path.c_str(), &sb) == 0;
    std::string data = ex ? slurp(path) : "";
    return "{\"op\":\"readfile\",\"oc\":\"ok\",\"exists\":" + std::string(ex ? "true" : "false") + ",\"bytes\":" + vj::bytes(data.data(), data.size()) + "}";
  }
  int id = (int)st.num("ctx", 0);
  std::string o = "{\"op\":" + vj::q(op);
  try {
    if (op == "new") {
      freeCtx(id);
      getCtx(id, st.boolean("trusted", false));
      o += ",\"oc\":\"ok\"";
    }
    else if (op == "exec" || op == "parse" || op == "execsaved") {
      Ctx& c = getCtx(id);
      std::string srctext = (op == "execsaved") ? g_saved[(int)st.num("from", 0)] : subst(st.str("text"));
      StringReader rd(srctext);
      Executable* ex = nullptr;
      std::string oc = "ok"; int no = 0; std::string name, msg;
      bool viaCapi = st.boolean("capi", false);
      if (viaCapi) {
        /* the way an embedding C program does it: bloc_parse_executable + bloc_execute on the same context */
        bloc_parsing_position pos;
        bloc_executable* x = bloc_parse_executable(reinterpret_cast<bloc_context*>(c.ctx), srctext.c_str(), &pos);
        if (!x) oc = "parse_error";
        else {
          ex = reinterpret_cast<Executable*>(x);
          c.execs.push_back(ex); c.last = ex;
          if (!bloc_execute(x)) oc = "runtime_error";
        }
      }
      else
      try {
        ex = Parser::parse(*c.ctx, rd);
        if (!ex) { oc = "parse_null"; }
      } catch (ParseError& pe) { oc = "parse_error"; no = pe.no; msg = pe.what(); }
      if (ex && !viaCapi) {
        c.execs.push_back(ex);
        c.last = ex;
        if (op != "parse") {
          try {
            /* "runin": the compiled program is run by another context (a clone), as bloc_execute2 does */
            if (st.get("runin")) { Ctx& rc = getCtx((int)st.num("runin")); ex->run(*rc.ctx, ex->statements()); }
            else ex->run();
          }
          catch (RuntimeError& re) { oc = "runtime_error"; no = re.no; name = errName(re); msg = re.what(); }
        }
      }
      Ctx& oc_ctx = st.get("runin") ? getCtx((int)st.num("runin")) : c;
      o += ",\"oc\":" + vj::q(oc) + ",\"no\":" + std::to_string(no) + ",\"name\":" + vj::q(name);
      o += ",\"out\":" + vj::q(drainOut(oc_ctx));
      if (op != "parse") {
        o += ",\"rv\":" + retJson(*oc_ctx.ctx);
        /* what a host does after a run: the return condition belongs to the finished program */
        oc_ctx.ctx->returnCondition(false);
      }
      o += "," + stateJson(*oc_ctx.ctx);
    }
    else if (op == "rerun") {
      Ctx& c = getCtx(id);
      std::string oc = "ok"; int no = 0; std::string name;
      if (!c.last) oc = "none";
      else {
        try { c.last->run(); }
        catch (RuntimeError& re) { oc = "runtime_error"; no = re.no; name = errName(re); }
      }
      o += ",\"oc\":" + vj::q(oc) + ",\"no\":" + std::to_string(no) + ",\"name\":" + vj::q(name);
      o += ",\"out\":" + vj::q(drainOut(c)) + ",\"rv\":" + retJson(*c.ctx);
      c.ctx->returnCondition(false);
      o += "," + stateJson(*c.ctx);
    }
    else if (op == "step") {
      /* statement at a time, exactly as apps/cli_parser.cpp and the Context.h recipe do */
      Ctx& c = getCtx(id);
      /* a fresh interactive parser per input, as bloc -i re-creates its parser after end of input */
      if (c.iparser) { delete c.iparser; c.iparser = nullptr; }
      if (c.ireader) { delete c.ireader; c.ireader = nullptr; }
      c.ireader = new StringReader(st.str("text") + "\n");
      c.iparser = Parser::createInteractiveParser(*c.ctx, *c.ireader);
      std::string per = "[";
      std::string oc = "ok"; int no = 0; std::string name; int nst = 0;
      bool first = true;
      for (int guard = 0; guard < 1000; ++guard) {
        const Statement* s = nullptr;
        std::string soc = "ok"; int sno = 0; std::string sname;
        try { s = c.iparser->parseStatement(); }
        catch (ParseError& pe) {
          if (pe.no == EXC_PARSE_EOF) break;
          soc = "parse_error"; sno = pe.no; c.iparser->clear();
        }
        if (c.iparser->state() == Parser::Aborted) break;
        if (!s && soc == "ok") continue;  /* newline */
        if (s) {
          ++nst;
          const Statement* r = s;
          while (r) {
            try { r = r->execute(*c.ctx); }
            catch (RuntimeError& re) {
              soc = "runtime_error"; sno = re.no; sname = errName(re);
              c.ctx->purgeWorkingMemory();
              break;
            }
          }
          c.stmts.push_back(s);
          if (c.ctx->returnCondition()) c.ctx->returnCondition(false);
        }
        if (!first) per += ','; first = false;
        per += "{\"oc\":" + vj::q(soc) + ",\"no\":" + std::to_string(sno) + ",\"name\":" + vj::q(sname) + "}";
        if (soc != "ok" && oc == "ok") { oc = soc; no = sno; name = sname; }
      }
      per += "]";
      o += ",\"oc\":" + vj::q(oc) + ",\"no\":" + std::to_string(no) + ",\"name\":" + vj::q(name) + ",\"nst\":" + std::to_string(nst);
      o += ",\"per\":" + per + ",\"out\":" + vj::q(drainOut(c)) + ",\"rv\":" + retJson(*c.ctx) + "," + stateJson(*c.ctx);
    }
    else if (op == "tokens") {
      /* the token sequence the parser sees when the text is delivered by the given reader */
      Ctx& c = getCtx(id);
      std::string t = textOf(st);
      std::string how = st.str("reader", "frag");
      Parser::StreamReader* rd = (how == "string") ? (Parser::StreamReader*)new StringReader(t) : (Parser::StreamReader*)new FragReader(t, fragSizes(st));
      Parser* p = Parser::createInteractiveParser(*c.ctx, *rd);
      std::string toks = "[";
      bool first = true; int n = 0;
      try {
        for (; n < 20000; ++n) {
          TokenPtr tk = p->pop();
          if (!tk) break;
          if (!first) toks += ','; first = false;
          toks += "[" + std::to_string(tk->code) + "," + vj::q(tk->text) + "]";
        }
      } catch (ParseError& pe) { /* end of stream */ }
      toks += "]";
      delete p; delete rd;
      o += ",\"oc\":\"ok\",\"n\":" + std::to_string(n) + ",\"toks\":" + toks;
    }
    else if (op == "execfrag") {
      /* compile and run the text delivered in fragments (or by the built-in string reader) */
      Ctx& c = getCtx(id);
      std::string t = textOf(st);
      std::string how = st.str("reader", "frag");
      Parser::StreamReader* rd;
      if (how == "include") {
        /* the text is in a file that the program includes: the INCLUDE statement has a file reader of its own */
        std::string path = tmpDir() + "/inc" + std::to_string(id) + ".bloc";
        { std::ofstream f(path, std::ios::binary); f << t; }
        c.ctx->trusted(true);
        rd = new StringReader("include \"" + path + "\";\n");
      }
      else rd = (how == "string") ? (Parser::StreamReader*)new StringReader(t) : (Parser::StreamReader*)new FragReader(t, fragSizes(st));
      Executable* ex = nullptr;
      std::string oc = "ok"; int no = 0; std::string name;
      try { ex = Parser::parse(*c.ctx, *rd); if (!ex) oc = "parse_null"; }
      catch (ParseError& pe) { oc = "parse_error"; no = pe.no; }
      delete rd;
      std::string unp;
      if (ex) {
        c.execs.push_back(ex); c.last = ex;
        int fd = memfd_create("vunp", 0); FILE* f = fdopen(fd, "w+");
        ex->unparse(f); fflush(f);
        off_t n = lseek(fd, 0, SEEK_END); unp.resize(n);
        if (pread(fd, &unp[0], n, 0) < 0) unp.clear();
        fclose(f);
        try { ex->run(); }
        catch (RuntimeError& re) { oc = "runtime_error"; no = re.no; name = errName(re); }
      }
      o += ",\"oc\":" + vj::q(oc) + ",\"no\":" + std::to_string(no) + ",\"name\":" + vj::q(name) + ",\"out\":" + vj::q(drainOut(c)) +
           ",\"unp\":" + vj::q(unp) + ",\"rv\":" + retJson(*c.ctx);
      c.ctx->returnCondition(false);
      o += "," + stateJson(*c.ctx);
    }
    else if (op == "execsplice") {
      /* a byte inserted at (or replacing) every position of the text; each variant compiled and run in a fresh context */
      std::string t = st.str("text");
      int byte = (int)st.num("byte", 0);
      bool ins = st.str("mode", "insert") == "insert";
      int nok = 0, nparse = 0, nrun = 0, nbad = 0; long firstbad = -1;
      size_t n = t.size();
      for (size_t k = 0; k <= n; ++k) {
        if (!ins && k >= n) break;
        std::string v = t;
        if (ins) v.insert(v.begin() + k, (char)byte); else v[k] = (char)byte;
        int fd = memfd_create("vs", 0);
        Context* cx = new Context(fd, fd);
        Executable* ex = nullptr;
        try {
          StringReader rd(v);
          ex = Parser::parse(*cx, rd);
          if (ex) { ex->run(); ++nok; }
        }
        catch (ParseError&) { ++nparse; }
        catch (RuntimeError&) { ++nrun; }
        catch (...) { ++nbad; if (firstbad < 0) firstbad = (long)k; }
        if (ex) delete ex;
        delete cx;
        close(fd);
      }
      o += std::string(",\"oc\":") + (nbad ? "\"foreign_exception\"" : "\"ok\"") + ",\"nok\":" + std::to_string(nok) + ",\"nparse\":" + std::to_string(nparse) +
           ",\"nrun\":" + std::to_string(nrun) + ",\"firstbad\":" + std::to_string(firstbad) + ",\"ctrl\":0,\"lvl\":0";
    }
    else if (op == "threads") {
      /* one compiled program, n clones, n threads at the same time (as bloc_execute2 does); per-thread results */
      Ctx& c = getCtx(id);
      int n = (int)st.num("n", 2), reps = (int)st.num("reps", 1);
      StringReader rd(st.str("text"));
      Executable* ex = nullptr;
      std::string oc = "ok";
      try { ex = Parser::parse(*c.ctx, rd); } catch (ParseError& pe) { oc = "parse_error"; }
      std::string per = "[";
      if (ex) {
        c.execs.push_back(ex);
        struct T { Context* cx; int fd; std::string oc, name, out; };
        std::vector<T> ts(n);
        for (int k = 0; k < n; ++k) { ts[k].fd = memfd_create("vt", 0); ts[k].cx = c.ctx->clone(ts[k].fd, ts[k].fd); ts[k].oc = "ok"; }
        std::vector<pthread_t> th(n);
        static pthread_barrier_t bar;
        pthread_barrier_init(&bar, nullptr, n);
        struct Arg { T* t; Executable* ex; int reps; };
        std::vector<Arg> args(n);
        auto fn = [](void* p) -> void* {
          Arg* a = (Arg*)p;
          pthread_barrier_wait(&bar);           /* all threads start together */
          for (int r = 0; r < a->reps; ++r) {
            try { Executable::run(*a->t->cx, a->ex->statements()); }
            catch (RuntimeError& re) { a->t->oc = "runtime_error"; a->t->name = errName(re); }
            catch (...) { a->t->oc = "foreign_exception"; }
            a->t->cx->returnCondition(false);
            if (a->t->oc != "ok") break;      /* an unhandled error ends this thread's work */
          }
          return nullptr;
        };
        for (int k = 0; k < n; ++k) { args[k] = Arg{&ts[k], ex, reps}; pthread_create(&th[k], nullptr, fn, &args[k]); }
        for (int k = 0; k < n; ++k) pthread_join(th[k], nullptr);
        pthread_barrier_destroy(&bar);
        for (int k = 0; k < n; ++k) {
          if (ts[k].cx->ctxout()) fflush(ts[k].cx->ctxout());
          off_t e = lseek(ts[k].fd, 0, SEEK_END); ts[k].out.resize(e);
          if (e > 0 && pread(ts[k].fd, &ts[k].out[0], e, 0) < 0) ts[k].out.clear();
          if (k) per += ',';
          per += "{\"oc\":" + vj::q(ts[k].oc) + ",\"name\":" + vj::q(ts[k].name) + ",\"out\":" + vj::q(ts[k].out) + "," + dumpJson(*ts[k].cx) + "}";
          delete ts[k].cx; close(ts[k].fd);
        }
      }
      per += "]";
      std::string races = tsanRaces();
      o += ",\"oc\":" + vj::q(oc) + ",\"per\":" + per + ",\"races\":" + races;
    }
    else if (op == "cli") {
      o += ",\"oc\":\"ok\"," + runCli(st);
    }
    else if (op == "capithreads") {
      /* C API only: n executables "raise ERR<k>;" compiled in one context, each run (bloc_execute2) reps times by its own clone on
         its own thread; after every failed run the thread reads bloc_errno / bloc_strerror: it must read its own error */
      int n = (int)st.num("n", 2), reps = (int)st.num("reps", 1);
      int fd0 = memfd_create("ct", 0);
      bloc_context* c0 = bloc_create_context(fd0, fd0);
      struct T { bloc_context* cx; bloc_executable* ex; int fd; int k; int reps; int bad_no; int bad_msg; int okruns; std::string first; };
      std::vector<T> ts(n);
      std::string oc = "ok";
      for (int k = 0; k < n; ++k) {
        std::string text = "raise ERR" + std::to_string(k) + ";";
        ts[k].ex = bloc_parse_executable(c0, text.c_str(), nullptr);
        if (!ts[k].ex) oc = "parse_error";
      }
      for (int k = 0; k < n; ++k) { ts[k].fd = memfd_create("ct", 0); ts[k].cx = bloc_clone_context2(c0, ts[k].fd, ts[k].fd); ts[k].k = k; ts[k].reps = reps; ts[k].bad_no = ts[k].bad_msg = ts[k].okruns = 0; }
      static pthread_barrier_t bar2;
      pthread_barrier_init(&bar2, nullptr, n);
      auto fn = [](void* p) -> void* {
        T* t = (T*)p;
        std::string want = "ERR" + std::to_string(t->k);
        pthread_barrier_wait(&bar2);
        for (int r = 0; r < t->reps; ++r) {
          if (bloc_execute2(t->cx, t->ex)) { ++t->okruns; continue; }
          int no = bloc_errno(); const char* m = bloc_strerror();
          std::string msg = m ? m : "<null>";
          if (no != 1) ++t->bad_no;
          if (msg.find(want) == std::string::npos) { ++t->bad_msg; if (t->first.empty()) t->first = msg; }
        }
        return nullptr;
      };
      std::vector<pthread_t> th(n);
      if (oc == "ok") {
        for (int k = 0; k < n; ++k) pthread_create(&th[k], nullptr, fn, &ts[k]);
        for (int k = 0; k < n; ++k) pthread_join(th[k], nullptr);
      }
      pthread_barrier_destroy(&bar2);
      std::string per = "[";
      for (int k = 0; k < n; ++k) {
        if (k) per += ',';
        per += "{\"bad_no\":" + std::to_string(ts[k].bad_no) + ",\"bad_msg\":" + std::to_string(ts[k].bad_msg) + ",\"okruns\":" + std::to_string(ts[k].okruns) + ",\"first\":" + vj::q(ts[k].first) + "}";
        bloc_free_context(ts[k].cx); close(ts[k].fd);
      }
      per += "]";
      for (int k = 0; k < n; ++k) if (ts[k].ex) bloc_free_executable(ts[k].ex);
      bloc_free_context(c0); close(fd0);
      o += ",\"oc\":" + vj::q(oc) + ",\"per\":" + per + ",\"races\":" + tsanRaces();
    }
    else if (op == "settrust") {
      /* the host promotes / demotes a context (Context::trusted(bool)) */
      Ctx& c = getCtx(id);
      c.ctx->trusted(st.boolean("on", false));
      o += ",\"oc\":\"ok\"";
    }
    /* the host's permission calls, through the C API (bloc_capi.h) */
    else if (op == "unban") {
      bloc_unban_plugin(st.str("m").c_str());
      o += ",\"oc\":\"ok\"";
    }
    else if (op == "clearperm") {
      bloc_clear_plugin_permissions();
      o += ",\"oc\":\"ok\"";
    }
    else if (op == "deinit") {
      bloc_deinit_plugins();
      o += ",\"oc\":\"ok\"";
    }
    else if (op == "dump") {
      Ctx& c = getCtx(id);
      o += ",\"oc\":\"ok\"," + dumpJson(*c.ctx) + "," + stateJson(*c.ctx);
    }
    else if (op == "expr") {
      /* compile an expression, record its static type, evaluate it (twice if asked) */
      Ctx& c = getCtx(id);
      StringReader rd(subst(st.str("text")) + ";");
      Parser* p = Parser::createInteractiveParser(*c.ctx, rd);
      Expression* e = nullptr;
      std::string oc = "ok"; int no = 0; std::string name;
      try {
        e = p->parseExpression();
        /* static type as the parser sees it */
        c.ctx->parsingBegin();
        Type sty = e->type(*c.ctx);
        TupleDecl::Decl sdecl = e->tuple_decl(*c.ctx);
        c.ctx->parsingEnd();
        o += ",\"sty\":" + typeJson(sty, &sdecl);
        bool firstDone = false;
        try {
          Value& v = e->value(*c.ctx);
          o += ",\"val\":" + valueJson(v);
          firstDone = true;
          if (st.boolean("twice", false)) {
            c.ctx->purgeWorkingMemory();
            Value& v2 = e->value(*c.ctx);
            o += ",\"val2\":" + valueJson(v2);
          }
        } catch (RuntimeError& re) { oc = "runtime_error"; no = re.no; name = errName(re); if (firstDone) o += ",\"second_failed\":true"; }
        c.ctx->purgeWorkingMemory();
      } catch (ParseError& pe) { oc = "parse_error"; no = pe.no; }
      if (e) delete e;
      delete p;
      o += ",\"oc\":" + vj::q(oc) + ",\"no\":" + std::to_string(no) + ",\"name\":" + vj::q(name);
      o += ",\"out\":" + vj::q(drainOut(c)) + "," + stateJson(*c.ctx);
    }
    else if (op == "arith") {
      /* operands are bound through the API (no literal parsing involved), the expression is compiled once */
      Ctx& c = getCtx(id);
      const vj::Val* pairs = st.get("pairs");
      std::string res = "[", res2 = "[";
      StringReader rd(st.str("expr") + ";");
      StringReader rd2(st.str("expr2") + ";");
      Parser* p = Parser::createInteractiveParser(*c.ctx, rd);
      Parser* p2 = st.get("expr2") ? Parser::createInteractiveParser(*c.ctx, rd2) : nullptr;
      Expression* e = nullptr;
      Expression* e2 = nullptr;
      std::string oc = "ok";
      try {
        if (pairs && !pairs->a.empty()) {
          /* declare the operand symbols with the type of the first pair */
          Value a0 = operandValue(pairs->a[0]->get("a"));
          Value b0 = operandValue(pairs->a[0]->get("b"));
          const Symbol& sa = c.ctx->registerSymbol("A", a0.type());
          const Symbol& sb = c.ctx->registerSymbol("B", b0.type());
          c.ctx->storeVariable(sa.id(), std::move(a0));
          c.ctx->storeVariable(sb.id(), std::move(b0));
        }
        e = p->parseExpression();
        if (p2) e2 = p2->parseExpression();
        bool first = true;
        if (pairs) for (auto& pr : pairs->a) {
          Symbol* sa = c.ctx->findSymbol("A"); Symbol* sb = c.ctx->findSymbol("B");
          c.ctx->storeVariable(sa->id(), operandValue(pr->get("a")));
          c.ctx->storeVariable(sb->id(), operandValue(pr->get("b")));
          if (!first) res += ','; first = false;
          try { res += resultJson(e->value(*c.ctx)); }
          catch (RuntimeError& re) { res += "{\"t\":\"err\",\"name\":" + vj::q(errName(re)) + ",\"no\":" + std::to_string((int)re.no) + "}"; }
          c.ctx->purgeWorkingMemory();
          if (e2) {
            if (res2.size() > 1) res2 += ',';
            try { res2 += resultJson(e2->value(*c.ctx)); }
            catch (RuntimeError& re) { res2 += "{\"t\":\"err\",\"name\":" + vj::q(errName(re)) + ",\"no\":" + std::to_string((int)re.no) + "}"; }
            c.ctx->purgeWorkingMemory();
          }
        }
      } catch (ParseError& pe) { oc = "parse_error"; }
      res += "]"; res2 += "]";
      if (e) delete e;
      if (e2) delete e2;
      delete p;
      if (p2) delete p2;
      o += ",\"oc\":" + vj::q(oc) + ",\"res\":" + res + ",\"res2\":" + res2 + "," + stateJson(*c.ctx);
    }
    else if (op == "unparse") {
      Ctx& c = getCtx(id);
      std::string text;
      if (c.last) {
        int fd = memfd_create("vunp", 0);
        FILE* f = fdopen(fd, "w+");
        c.last->unparse(f);
        fflush(f);
        off_t n = lseek(fd, 0, SEEK_END);
        text.resize(n);
        if (pread(fd, &text[0], n, 0) < 0) text.clear();
        fclose(f);
      }
      g_saved[id] = text;
      o += ",\"oc\":\"ok\",\"text\":" + vj::q(text);
    }
    else if (op == "clone") {
      int from = (int)st.num("from", 0);
      Ctx& src = getCtx(from);
      freeCtx(id);
      Ctx& c = g_ctx[id];
      c.fd = memfd_create("vout", 0);
      c.ctx = src.ctx->clone(c.fd, c.fd);
      c.rd = 0;
      o += ",\"oc\":\"ok\"";
    }
    else if (op == "purge") {
      Ctx& c = getCtx(id);
      for (auto e : c.execs) delete e;
      c.execs.clear(); c.last = nullptr;
      for (auto s : c.stmts) delete s;
      c.stmts.clear();
      c.ctx->purge();
      o += ",\"oc\":\"ok\"," + stateJson(*c.ctx);
    }
    else if (op == "free") {
      freeCtx(id);
      o += ",\"oc\":\"ok\"";
    }
    else {
      o += ",\"oc\":\"badop\"";
    }
  }
  catch (ParseError& pe) { o += ",\"oc\":\"escaped_parse_error\",\"no\":" + std::to_string((int)pe.no); }
  catch (RuntimeError& re) { o += ",\"oc\":\"escaped_runtime_error\",\"no\":" + std::to_string((int)re.no); }
  catch (std::exception& e) { o += ",\"oc\":\"foreign_exception\",\"what\":" + vj::q(e.what()); }
  catch (...) { o += ",\"oc\":\"foreign_exception\",\"what\":\"?\""; }
  return o + "}";
}

// events of the verification module libbloc_vobj (if it is loaded in this process)
#include <dlfcn.h>
static long g_vobj_base = -1;
long g_vobj_base_get() { return g_vobj_base < 0 ? 0 : g_vobj_base; }
static std::string drainVobj() {
  void* h = dlopen("libbloc_vobj.so.2.9", RTLD_NOLOAD | RTLD_LAZY);
  if (!h) return "[]";
  typedef const char* (*DR)();
  DR dr = (DR)dlsym(h, "VOBJ_drain");
  std::string out = "[";
  if (dr) {
    std::string all = dr();
    size_t p = 0; bool first = true;
    while (p < all.size()) {
      size_t e = all.find('\n', p);
      if (e == std::string::npos) e = all.size();
      std::string line = all.substr(p, e - p);
      p = e + 1;
      if (line.empty()) continue;
      /* renumber object identities relative to the scenario */
      vj::Parser jp(line); vj::P ev = jp.parse();
      long long id = ev->num("id", 0);
      if (g_vobj_base < 0) g_vobj_base = id - 1;
      std::string o = "{\"e\":" + vj::q(ev->str("e")) + ",\"id\":" + std::to_string(id - g_vobj_base);
      if (ev->get("name")) o += ",\"name\":" + vj::q(ev->str("name"));
      if (ev->get("tag")) o += ",\"tag\":" + std::to_string(ev->num("tag"));
      if (ev->get("ctor")) o += ",\"ctor\":" + std::to_string(ev->num("ctor"));
      if (ev->get("live")) o += std::string(",\"live\":") + (ev->boolean("live") ? "true" : "false");
      if (ev->get("was_live")) o += std::string(",\"was_live\":") + (ev->boolean("was_live") ? "true" : "false");
      if (const vj::Val* a = ev->get("args")) {
        o += ",\"args\":[";
        bool f2 = true;
        for (auto& x : a->a) {
          if (!f2) o += ','; f2 = false;
          std::string t = x->str("t");
          if (t == "int") o += "{\"t\":\"int\",\"v\":" + std::to_string(x->num("v")) + "}";
          else if (t == "dec") o += "{\"t\":\"dec\",\"h\":" + std::to_string(x->num("h")) + "}";
          else if (t == "str") o += "{\"t\":\"str\",\"v\":" + vj::q(x->str("v")) + "}";
          else if (t == "bool") o += std::string("{\"t\":\"bool\",\"v\":") + (x->boolean("v") ? "true" : "false") + "}";
          else if (t == "obj") o += "{\"t\":\"obj\",\"id\":" + std::to_string(x->num("id") - g_vobj_base) + "}";
          else o += "{\"t\":" + vj::q(t) + "}";
        }
        o += "]";
      }
      o += "}";
      if (!first) out += ','; first = false;
      out += o;
    }
  }
  dlclose(h);
  return out + "]";
}

static void freeAll() {
  while (!g_ctx.empty()) freeCtx(g_ctx.begin()->first);
  /* process-wide registry: every scenario starts with no module loaded and nothing granted */
  PluginManager::destroy();
}

extern "C" int __lsan_do_recoverable_leak_check(void) __attribute__((weak));

// the allocation sites (first frame inside the library sources) of the leaks LeakSanitizer just reported
static std::string leakSites(const std::string& errpath) {
  std::ifstream ef(errpath); std::string l, out; bool want = false; int n = 0;
  while (std::getline(ef, l)) {
    if (l.find("leak of") != std::string::npos) { want = true; continue; }
    if (want && l.find("/blocc/") != std::string::npos) {
      size_t p = l.find(" in "); std::string site = p == std::string::npos ? l : l.substr(p + 4);
      size_t q = site.find("/blocc/"); size_t sp = site.rfind(' ', q);
      std::string fn = site.substr(0, sp == std::string::npos ? 0 : sp), loc = site.substr(q + 1);
      if (fn.size() > 60) fn = fn.substr(0, 60);
      std::string item = fn + " " + loc;
      if (out.find(item) == std::string::npos && n < 6) { if (!out.empty()) out += " | "; out += item; ++n; }
      want = false;
    }
  }
  return out;
}

int main(int argc, char** argv) {
  if (argc < 3) { fprintf(stderr, "usage: vdrive scenarios.ndjson obs.ndjson [batch] [timeout_s]\n"); return 2; }
  std::vector<std::string> lines;
  { std::ifstream in(argv[1]); std::string l; while (std::getline(in, l)) if (!l.empty()) lines.push_back(l); }
  size_t batch = argc > 3 ? atoi(argv[3]) : 500;
  int tmo = argc > 4 ? atoi(argv[4]) : 10;
  bool leakcheck = getenv("VDRIVE_LEAKCHECK") != nullptr;
  FILE* out = fopen(argv[2], "w");
  if (!out) return 2;
  std::string errpath = std::string(argv[2]) + ".stderr";
  std::string partpath = std::string(argv[2]) + ".partial";
  size_t i = 0;
  while (i < lines.size()) {
    // shared progress cell: index of the scenario being executed
    size_t* prog = (size_t*)mmap(nullptr, sizeof(size_t) * 2, PROT_READ | PROT_WRITE, MAP_SHARED | MAP_ANONYMOUS, -1, 0);
    prog[0] = i; prog[1] = 0;
    fflush(out);
    pid_t pid = fork();
    if (pid == 0) {
      int efd = open(errpath.c_str(), O_WRONLY | O_CREAT | O_TRUNC, 0644);
      dup2(efd, 2);
      for (size_t k = i; k < lines.size() && k < i + batch; ++k) {
        prog[0] = k;
        vj::Parser jp(lines[k]);
        vj::P sc = jp.parse();
        if (!jp.ok) { fprintf(out, "{\"id\":-1,\"end\":\"badjson\",\"line\":%zu}\n", k); continue; }
        long long id = sc->num("id", (long long)k);
        alarm(tmo);
        /* sanitizer output and the observations made so far are kept per scenario, so that the parent
           can report how far a scenario got when the process dies in it */
        if (ftruncate(efd, 0) == 0) lseek(efd, 0, SEEK_SET);
        FILE* part = fopen(partpath.c_str(), "w");
        std::string o = "{\"id\":" + std::to_string(id) + ",\"obs\":[";
        const vj::Val* steps = sc->get("steps");
        bool f = true;
        g_vobj_base = -1;
        if (steps) for (auto& st : steps->a) {
          if (!f) o += ','; f = false;
          std::string so = doStep(*st);
          so.insert(so.size() - 1, ",\"ev\":" + drainVobj());
          o += so;
          if (part) { fputs(so.c_str(), part); fputc('\n', part); fflush(part); }
        }
        if (part) fclose(part);
        o += "]";
        /* contexts and programs are released, then the remaining module events are collected */
        while (!g_ctx.empty()) freeCtx(g_ctx.begin()->first);
        o += ",\"evend\":" + drainVobj();
        freeAll();
        capiForget();
        cleanTmp();
        alarm(0);
        int leaked = 0;
        std::string leakat;
        if (leakcheck && __lsan_do_recoverable_leak_check) {
          leaked = __lsan_do_recoverable_leak_check();
          if (leaked) leakat = leakSites(errpath);
        }
        o += std::string(",\"leak\":") + (leaked ? "true" : "false") + ",\"leakat\":" + vj::q(leakat) + ",\"end\":\"ok\"}\n";
        fputs(o.c_str(), out);
        fflush(out);
        prog[1] = k + 1;
      }
      fflush(out);
      _exit(0);
    }
    int status = 0;
    waitpid(pid, &status, 0);
    size_t done = prog[1];
    size_t cur = prog[0];
    munmap(prog, sizeof(size_t) * 2);
    bool clean = WIFEXITED(status) && WEXITSTATUS(status) == 0;
    size_t upto = std::min(lines.size(), i + batch);
    if (clean && done >= upto) { i = upto; continue; }
    // the child died inside scenario `cur`
    fseek(out, 0, SEEK_END);
    vj::Parser jp(lines[cur]); vj::P sc = jp.parse();
    long long id = sc->num("id", (long long)cur);
    std::string san;
    { std::ifstream ef(errpath); std::stringstream ss; ss << ef.rdbuf(); san = ss.str(); }
    std::string summary;
    size_t pos = san.rfind("SUMMARY:");
    if (pos != std::string::npos) summary = san.substr(pos, san.find('\n', pos) - pos);
    else {
      pos = san.find("runtime error:");
      if (pos != std::string::npos) { size_t b = san.rfind('\n', pos); b = (b == std::string::npos) ? 0 : b + 1; summary = san.substr(b, san.find('\n', pos) - b); }
      else summary = san.substr(0, 300);
    }
    std::string end = "crash";
    if (WIFSIGNALED(status) && WTERMSIG(status) == SIGALRM) end = "timeout";
    std::string sig = WIFSIGNALED(status) ? std::to_string(WTERMSIG(status)) : ("exit" + std::to_string(WEXITSTATUS(status)));
    std::string pobs;
    { std::ifstream pf(partpath); std::string l; while (std::getline(pf, l)) if (!l.empty() && l.back() == '}') { if (!pobs.empty()) pobs += ','; pobs += l; } }
    fprintf(out, "{\"id\":%lld,\"obs\":[%s],\"leak\":false,\"end\":%s,\"sig\":%s,\"san\":%s}\n", id, pobs.c_str(), vj::q(end).c_str(), vj::q(sig).c_str(), vj::q(summary).c_str());
    fflush(out);
    i = cur + 1;
  }
  fclose(out);
  return 0;
}
