#!/usr/bin/env python3
"""Regenerates /verif/MANIFEST.json from the table below (keeps it schema-valid at all times)."""
import json, os, subprocess
ROOT = os.path.dirname(os.path.dirname(os.path.abspath(__file__)))

def hook_commits():
    out = subprocess.run(['git', '-C', '/repo', 'log', '--format=%h %s'], capture_output=True, text=True).stdout
    return [l.split()[0] for l in out.splitlines() if l.split(' ', 1)[1].startswith('verif hook')]

CHECKS = {}
def check(pid, category, text, note, technique, design_ref):
    CHECKS[pid] = {
        'property_id': pid,
        'quick_cmd': 'bin/check %s --tier quick' % pid,
        'thorough_cmd': 'bin/check %s --tier thorough' % pid,
        'evidence_file': 'evidence/%s.json' % pid,
        'replay_cmd_template': 'bin/check %s --replay {path}' % pid,
        'engine': 'tlc-conformance',
        'level_claimed': {'category': category, 'text': text, 'design_ref': design_ref},
        'level_note': note,
        'technique': technique,
    }

exec(open(os.path.join(ROOT, 'lib', 'manifest_table.py')).read())

props = [json.loads(l)['id'] for l in open(os.path.join(ROOT, 'properties.jsonl'))]
m = {
    'version': 1,
    'setup_cmd': 'bin/setup',
    'hooks': {'guard': 'BLOC_VERIF',
              'enable': "bin/build configures /repo's working tree with clang, -DBLOC_VERIF and ASan+UBSan (or TSan) into /verif/.cache/build-<flavor>; harness sources in /verif/harness are compiled against it",
              'baseline_off_cmd': 'bin/baseline_off',
              'source_commits': hook_commits(),
              'add_only': True},
    'engines': [{'name': 'tlc-conformance', 'path': 'bin/check',
                 'serves_properties': sorted(CHECKS),
                 'kind_free_text': 'explicit TLA+ specification (spec/*.tla): TLC model-checks the design-level configs, generates scenarios, '
                                   'the harness replays them on the library/CLI built from /repo, TLC validates the recorded traces'}],
    'checks': [CHECKS[p] for p in props if p in CHECKS],
    'not_applicable': [{'property_id': p, 'reason': NOT_APPLICABLE.get(p, 'check not built yet in this round; see DESIGN.md section 7 for the plan')}
                       for p in props if p not in CHECKS],
    'notes': 'All checks: bin/check <ID> [--tier quick|thorough]; exit 0 held / 1 violation / 2 machinery failure. Known findings: known_findings.json.',
}
json.dump(m, open(os.path.join(ROOT, 'MANIFEST.json'), 'w'), indent=1)
print('MANIFEST.json: %d checks, %d not applicable' % (len(m['checks']), len(m['not_applicable'])))
