----------------------------- MODULE StrBuiltins -----------------------------
(***************************************************************************)
(* String, bytes and conversion built-ins of BLOC over TLA+ strings        *)
(* (printable ASCII; TLC supports Len, SubSeq and \\o on strings) and over  *)
(* byte sequences.  Pinned results only where the manual (or its universal *)
(* reading) pins them: in-range substr / lsubstr / rsubstr / subraw,       *)
(* strlen, upper / lower on ASCII, strpos (first occurrence at or after z, *)
(* else null), replace (all occurrences, left to right, non overlapping),  *)
(* trim family, chr (0..255 else OUT_OF_RANGE), hex, hash (DJB2, 32 bits,  *)
(* optional bucket count >= 1).  Elsewhere a relation: the result is a     *)
(* contiguous part of the argument.                                        *)
(***************************************************************************)
EXTENDS Integers, Sequences, FiniteSets, TLC

Ascii == <<" ", "!", "\"", "#", "$", "%", "&", "'", "(", ")", "*", "+", ",", "-", ".", "/", "0", "1", "2", "3", "4", "5", "6", "7", "8", "9", ":", ";", "<", "=", ">", "?", "@", "A", "B", "C", "D", "E", "F", "G", "H", "I", "J", "K", "L", "M", "N", "O", "P", "Q", "R", "S", "T", "U", "V", "W", "X", "Y", "Z", "[", "\\", "]", "^", "_", "`", "a", "b", "c", "d", "e", "f", "g", "h", "i", "j", "k", "l", "m", "n", "o", "p", "q", "r", "s", "t", "u", "v", "w", "x", "y", "z", "{", "|", "}", "~">>          \* Ascii[k] is the character with code 31 + k
CodeOfChar(c) == LET idx == {j \in DOMAIN Ascii : Ascii[j] = c} IN IF idx = {} THEN -1 ELSE 31 + (CHOOSE j \in idx : TRUE)
CharOfCode(n) == IF n >= 32 /\ n <= 126 THEN Ascii[n - 31] ELSE "?"
Ch(s, i) == SubSeq(s, i, i)                       \* i-th character (1-based) as a string
Bytes(s) == [i \in 1..Len(s) |-> CodeOfChar(Ch(s, i))]

Min(a, b) == IF a < b THEN a ELSE b
Max(a, b) == IF a > b THEN a ELSE b

\* in-range semantics (0-based begin, count >= 0)
Substr(x, b, c) == SubSeq(x, b + 1, Min(Len(x), b + c))
SubstrFrom(x, b) == SubSeq(x, b + 1, Len(x))
LSubstr(x, k) == SubSeq(x, 1, Min(k, Len(x)))
RSubstr(x, k) == SubSeq(x, Len(x) - Min(k, Len(x)) + 1, Len(x))
IsPartOf(r, x) == \E i \in 1..(Len(x) + 1), j \in 0..Len(x) : SubSeq(x, i, j) = r

\* first occurrence of y in x at 0-based position >= z ; -1 if none
StrPos(x, y, z) ==
  LET cand == {p \in z..(Len(x) - Len(y)) : SubSeq(x, p + 1, p + Len(y)) = y} IN
  IF cand = {} THEN -1 ELSE CHOOSE p \in cand : \A q \in cand : p <= q

RECURSIVE ReplaceFrom(_, _, _, _)
ReplaceFrom(x, y, z, p) ==          \* replace all occurrences of y (non empty) from 0-based position p
  LET e == StrPos(x, y, p) IN
  IF e < 0 THEN SubSeq(x, p + 1, Len(x))
  ELSE SubSeq(x, p + 1, e) \o z \o ReplaceFrom(x, y, z, e + Len(y))
Replace(x, y, z) == IF y = "" THEN x ELSE ReplaceFrom(x, y, z, 0)

IsWs(c) == c \in {" "}
RECURSIVE LTrim(_), RTrim(_)
LTrim(x) == IF Len(x) > 0 /\ IsWs(Ch(x, 1)) THEN LTrim(SubSeq(x, 2, Len(x))) ELSE x
RTrim(x) == IF Len(x) > 0 /\ IsWs(Ch(x, Len(x))) THEN RTrim(SubSeq(x, 1, Len(x) - 1)) ELSE x
Trim(x) == LTrim(RTrim(x))

UpperC(c) == LET n == CodeOfChar(c) IN IF n >= 97 /\ n <= 122 THEN CharOfCode(n - 32) ELSE c
LowerC(c) == LET n == CodeOfChar(c) IN IF n >= 65 /\ n <= 90 THEN CharOfCode(n + 32) ELSE c
MapStr(x, F(_)) == LET J[i \in 0..Len(x)] == IF i = 0 THEN "" ELSE J[i - 1] \o F(Ch(x, i)) IN J[Len(x)]
Upper(x) == MapStr(x, UpperC)
Lower(x) == MapStr(x, LowerC)

\* DJB2 hash modulo 2^32, computed on two 16-bit halves (TLC integers are 32-bit)
HashStep(h, c) ==     \* h = <<hi, lo>> ; h * 33 + c
  LET lo == h[2] * 33 + c
      hi == h[1] * 33 + lo \div 65536
  IN  <<hi % 65536, lo % 65536>>
HashBytes(bs) == LET H[i \in 0..Len(bs)] == IF i = 0 THEN <<0, 5381>> ELSE HashStep(H[i - 1], bs[i]) IN H[Len(bs)]
\* value modulo n (n < 2^15) of a 32-bit number given as halves
HalvesMod(h, n) == ((h[1] % n) * (65536 % n) + h[2]) % n

HexDigit(d) == SubSeq("0123456789abcdef", d + 1, d + 1)
RECURSIVE HexNat(_)
HexNat(n) == IF n < 16 THEN HexDigit(n) ELSE HexNat(n \div 16) \o HexDigit(n % 16)
RECURSIVE Zeros(_)
Zeros(k) == IF k <= 0 THEN "" ELSE "0" \o Zeros(k - 1)
Hex(n, w) == LET s == HexNat(n) IN Zeros(w - Len(s)) \o s          \* n >= 0

\* tokenize: the values between the non-overlapping occurrences of the separator y (non empty), left to right
RECURSIVE SplitFrom(_, _, _)
SplitFrom(x, y, p) == LET e == StrPos(x, y, p) IN
                      IF e < 0 THEN <<SubSeq(x, p + 1, Len(x))>> ELSE <<SubSeq(x, p + 1, e)>> \o SplitFrom(x, y, e + Len(y))
Split(x, y) == SplitFrom(x, y, 0)
NonEmpty(ps) == LET F[i \in 0..Len(ps)] == IF i = 0 THEN <<>> ELSE IF ps[i] = "" THEN F[i - 1] ELSE Append(F[i - 1], ps[i]) IN F[Len(ps)]

\* base64 (RFC 4648 alphabet, padded) of a byte sequence
B64Alphabet == "ABCDEFGHIJKLMNOPQRSTUVWXYZabcdefghijklmnopqrstuvwxyz0123456789+/"
B64Ch(n) == SubSeq(B64Alphabet, n + 1, n + 1)
RECURSIVE B64(_)
B64(bs) ==
  IF Len(bs) = 0 THEN ""
  ELSE IF Len(bs) = 1 THEN B64Ch(bs[1] \div 4) \o B64Ch((bs[1] % 4) * 16) \o "=="
  ELSE IF Len(bs) = 2 THEN B64Ch(bs[1] \div 4) \o B64Ch((bs[1] % 4) * 16 + bs[2] \div 16) \o B64Ch((bs[2] % 16) * 4) \o "="
  ELSE B64Ch(bs[1] \div 4) \o B64Ch((bs[1] % 4) * 16 + bs[2] \div 16) \o B64Ch((bs[2] % 16) * 4 + bs[3] \div 64) \o B64Ch(bs[3] % 64)
       \o B64(SubSeq(bs, 4, Len(bs)))
=============================================================================
