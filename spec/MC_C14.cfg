SPECIFICATION Spec
CONSTANTS N = 3
          Deviations = {}
INVARIANT NoRace
INVARIANT Sequential
CHECK_DEADLOCK FALSE
