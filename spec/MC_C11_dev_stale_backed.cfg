SPECIFICATION Spec
CONSTANTS Names = {"a", "b"}
          Types = {"int", "str"}
          FNames = {"f", "g"}
          Bodies = {1, 2}
          MaxUnits = 3
          Dev = {"stale_backed"}
INVARIANT RejectedLeavesNoTrace
INVARIANT NoBodylessFunction
INVARIANT RejectedFunctionsUnknown
CONSTRAINT Bounded
CHECK_DEADLOCK FALSE
