SPECIFICATION Spec
CONSTANTS Modules = {"csv", "utf8"}
          Alphabet = "perm"
          MaxLen = 6
INVARIANT Emit
CHECK_DEADLOCK FALSE
