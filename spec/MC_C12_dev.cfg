INIT Init
NEXT Next
CONSTANT Dev = "neg_const_bare"
INVARIANT RoundTrip
INVARIANT Minimal
CHECK_DEADLOCK FALSE
