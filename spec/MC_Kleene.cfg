SPECIFICATION Spec
CONSTANT Deviations = {}
INVARIANT ConstantsIntact
INVARIANT VariablesIntact
INVARIANT ResultIsKleene
