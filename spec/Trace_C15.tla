----------------------------- MODULE Trace_C15 -----------------------------
(***************************************************************************)
(* Trace validation of recorded C API call sequences against CApi.tla.     *)
(* One TLC behaviour per scenario; step k+1 of the scenario is the call a  *)
(* the harness made and o what the library answered.  The call must be     *)
(* allowed by the documented preconditions (Pre - otherwise the generator  *)
(* is wrong, reported as UNDECIDED), its result is judged by Why, and the  *)
(* handle machine moves by Post.  After the last call the caller owns      *)
(* nothing: no memory may remain allocated (LeakSanitizer verdict of the   *)
(* harness) and the machine must be in a released state.                   *)
(***************************************************************************)
EXTENDS CApi, Json, IOUtils

TraceFile == IF "TRACE" \in DOMAIN IOEnv THEN IOEnv.TRACE ELSE "trace.ndjson"
Scn == ndJsonDeserialize(TraceFile)
N == Len(Scn)

VARIABLES i, k, m, verdict
vars == <<i, k, m, verdict>>

ActOf(st) == A(st.a, st.c, st.h, st.g, st.n, st.p)
Report(id, kk, why) == IF why = "" THEN TRUE ELSE PrintT("@@V " \o ToJson([id |-> id, k |-> kk, why |-> why]))

Init == /\ i \in 1..N /\ k = 0 /\ m = M0 /\ verdict = ""

Next ==
  /\ k < Len(Scn[i].steps)
  /\ LET sc == Scn[i]
         st == sc.steps[k + 1]
         a  == ActOf(st)
         last == k + 1 = Len(sc.steps)
     IN  IF k + 1 > Len(sc.obs)
         THEN /\ verdict' = "no observation: " \o sc.end \o " " \o (IF "san" \in DOMAIN sc THEN sc.san ELSE "") \o " (call " \o st.a \o ")"
              /\ Report(sc.id, k + 1, verdict')
              /\ k' = Len(sc.steps) /\ m' = m /\ i' = i
         ELSE LET o == sc.obs[k + 1]
                  why == IF a.a = "ctx_new" THEN (IF o.ok THEN "" ELSE "no context returned")
                         ELSE IF ~Pre(m, a) THEN "UNDECIDED: the generated call breaks a documented precondition"
                         ELSE Why(m, a, o)
                  m2 == IF a.a = "ctx_new" \/ ~Pre(m, a) THEN m ELSE Post(m, a)
                  endw == IF ~last \/ why # "" THEN ""
                          ELSE IF ~Released(m2) THEN "UNDECIDED: the scenario does not release everything"
                          ELSE IF sc.leak THEN "memory remains allocated after the caller freed everything it owns; allocated at: " \o sc.leakat
                          ELSE ""
                  w == IF why # "" THEN why ELSE endw
              IN  /\ verdict' = w
                  /\ Report(sc.id, k + 1, w)
                  /\ m' = m2 /\ k' = k + 1 /\ i' = i

Spec == Init /\ [][Next]_vars
=============================================================================
