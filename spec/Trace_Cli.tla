------------------------------ MODULE Trace_Cli ------------------------------
(***************************************************************************)
(* Trace validation of interactive sessions: the recorded run of a session *)
(* (one piece of output, the error counts and the file written, per        *)
(* command) is replayed through the actions of BlocCli.  Every command     *)
(* must have shown exactly what the action says; `list` must show the text *)
(* `save` writes at that moment; `load` must echo the text of the file it  *)
(* loads; the same pool always has the same text.                          *)
(***************************************************************************)
EXTENDS BlocCli, Json, IOUtils
TraceFile == IF "TRACE" \in DOMAIN IOEnv THEN IOEnv.TRACE ELSE "trace.ndjson"
Scn == ndJsonDeserialize(TraceFile)
N == Len(Scn)

VARIABLES i, k, ftext, seen
tvars == <<i, k, m, hist, ftext, seen>>
Report(id, why) == PrintT("@@V " \o ToJson([id |-> id, k |-> 1, why |-> why]))

CmdOf(j) == IF j.c = "stmt" THEN StmtById(j.id)
            ELSE IF j.c = "expr" THEN CHOOSE x \in Exprs : x.id = j.id
            ELSE IF j.c \in {"save", "load"} THEN [c |-> j.c, f |-> j.f]
            ELSE [c |-> j.c]
Ids(pool) == [j \in DOMAIN pool |-> pool[j].id]
Where(n, c) == "command " \o ToString(n) \o " (" \o (IF c.c \in {"stmt", "expr"} THEN c.id ELSE IF c.c \in {"save", "load"} THEN c.c \o " " \o ToString(c.f) ELSE c.c) \o "): "

\* what is wrong with the observation o of command c, given the session q after it ("" = nothing)
Wrong(c, q, o) ==
  LET e == q.last IN
  IF e.kind = "any" THEN ""
  ELSE IF o.nerr # e.rerr \/ o.nperr # e.perr
       THEN "reported " \o ToString(o.nerr) \o " run-time and " \o ToString(o.nperr) \o " compile errors, expected " \o ToString(e.rerr) \o " and " \o ToString(e.perr)
  ELSE IF e.kind = "text" /\ o.out # e.out THEN "shows something else; expected: " \o e.out
  ELSE IF e.kind = "pool" /\ ~o.hasfile THEN "save wrote no file"
  ELSE IF e.kind = "pool" /\ o.out # o.file \o "\n" THEN "list does not show the text that save writes"
  ELSE IF e.kind = "pool" /\ q.pool = <<>> /\ o.file # "" THEN "the text of an empty pool is not empty"
  ELSE IF e.kind = "file" /\ o.out # e.out \o ftext[c.f] THEN "load does not echo the text of the file (after what the context had still to show: " \o e.out \o ")"
  ELSE IF c.c = "save" /\ ~o.hasfile THEN "save wrote no file"
  ELSE IF c.c \in {"save", "list"} /\ \E r \in seen : r.ids = Ids(q.pool) /\ r.text # o.file THEN "the same statements were written as a different text before"
  ELSE ""

TInit == /\ i \in 1..N /\ k = 0 /\ m = M0 /\ hist = <<>> /\ ftext = [f \in Files |-> ""] /\ seen = {}

TNext ==
  LET sc == Scn[i]  cmds == sc.steps[1].cmds IN
  /\ k < Len(cmds) /\ ~m.unk /\ i' = i /\ k' = k + 1
  /\ IF sc.obs = <<>> \/ "cmds" \notin DOMAIN sc.obs[1] \/ k + 1 > Len(sc.obs[1].cmds) THEN
          /\ Report(sc.id, "command " \o ToString(k + 1) \o ": no observation (the session ended early): " \o sc.end \o " " \o sc.san)
          /\ m' = [m EXCEPT !.unk = TRUE] /\ UNCHANGED <<hist, ftext, seen>>
     ELSE LET c == CmdOf(cmds[k + 1])
              o == sc.obs[1].cmds[k + 1]
              q == Post(m, c)
              w == Wrong(c, q, o) IN
          /\ m' = q /\ hist' = Append(hist, c)
          /\ ftext' = IF c.c = "save" THEN [ftext EXCEPT ![c.f] = o.file] ELSE ftext
          /\ seen' = IF c.c \in {"save", "list"} THEN seen \cup {[ids |-> Ids(q.pool), text |-> o.file]} ELSE seen
          /\ (w = "" \/ Report(sc.id, Where(k + 1, c) \o w))
          /\ (k + 1 < Len(cmds) \/ q.unk \/ (sc.obs[1].status = 0 /\ ~sc.obs[1].san) \/ Report(sc.id, "the session did not end normally"))
TSpec == TInit /\ [][TNext]_tvars
=============================================================================
