------------------------------ MODULE Gen_C05 ------------------------------
(***************************************************************************)
(* Scenario generator for C05 (value semantics): for each value type, all  *)
(* sequences of up to H statements from an alias-stress pool (copies into  *)
(* variables, tables, tuples, function parameters; in-place methods on     *)
(* either side; element mutation; forall write-through; re-evaluation of   *)
(* the same node in a loop; literals as receivers).  Every statement is    *)
(* followed by a dump of all variables, which TLC compares with the ideal  *)
(* store (pure values: aliasing is impossible in the specification).       *)
(***************************************************************************)
EXTENDS Bloc, Json, IOUtils, SequencesExt
Env(n, d) == IF n \in DOMAIN IOEnv THEN IOEnv[n] ELSE d
H == atoi(Env("GEN_DEPTH", "2"))

A == V("A")  Bv == V("B")  Tt == V("T")
At(e, i) == Mem(e, "at", <<I(i)>>)

\* per type: constructor of the initial value, a fresh value, an element value, in-place mutators of a place
Types == {"int", "str", "tabint", "tabstr", "tabtab", "tup"}
Init0(ty) == CASE ty = "int" -> I(5) [] ty = "str" -> Str("ab") [] ty = "tabint" -> Call("tab", <<I(2), I(1)>>)
               [] ty = "tabstr" -> Call("tab", <<I(2), Str("a")>>) [] ty = "tabtab" -> Call("tab", <<I(2), Call("tab", <<I(1), I(1)>>)>>)
               [] ty = "tup" -> Call("tup", <<I(1), Str("a")>>)
Fresh(ty) == CASE ty = "int" -> I(6) [] ty = "str" -> Str("cd") [] ty = "tabint" -> Call("tab", <<I(1), I(8)>>)
               [] ty = "tabstr" -> Call("tab", <<I(1), Str("n")>>) [] ty = "tabtab" -> Call("tab", <<I(1), Call("tab", <<I(2), I(3)>>)>>)
               [] ty = "tup" -> Call("tup", <<I(2), Str("b")>>)
\* statements mutating the place pl in place
Mut(ty, pl) ==
  CASE ty = "int" -> << >>
    [] ty = "str" -> << Do(Mem(pl, "concat", <<Str("z")>>)) >>
    [] ty = "tabint" -> << Do(Mem(pl, "concat", <<I(9)>>)), Do(Mem(pl, "put", <<I(0), I(9)>>)), Do(Mem(pl, "delete", <<I(0)>>)), Do(Mem(pl, "insert", <<I(0), I(4)>>)) >>
    [] ty = "tabstr" -> << Do(Mem(At(pl, 0), "concat", <<Str("z")>>)), Do(Mem(pl, "put", <<I(1), Str("q")>>)), Do(Mem(pl, "concat", <<pl>>)) >>
    [] ty = "tabtab" -> << Do(Mem(At(pl, 0), "put", <<I(0), I(9)>>)), Do(Mem(At(pl, 1), "concat", <<I(9)>>)), Do(Mem(pl, "concat", <<At(pl, 0)>>)) >>
    [] ty = "tup" -> << Do(SetAt(pl, 1, I(9))), Do(SetAt(pl, 2, Str("z"))) >>

FuncFor(ty) ==
  IF ty = "int" THEN Func("FM", <<"P">>, <<Let("P", Bin("+", V("P"), I(1))), Return(V("P"))>>)
  ELSE Func("FM", <<"P">>, Mut(ty, V("P")) \o <<Return(V("P"))>>)

Pool(ty) ==
  << Let("B", A), Let("A", Bv), Let("A", Fresh(ty)), Let("B", Fresh(ty)),
     Let("T", Call("tab", <<I(2), A>>)), Do(Mem(Tt, "put", <<I(0), A>>)), Do(Mem(Tt, "concat", <<Bv>>)),
     Let("B", At(Tt, 0)), Let("A", At(Tt, 1)),
     Let("B", UCall("FM", <<A>>)), Do(UCall("FM", <<A>>)), Let("A", UCall("FM", <<At(Tt, 0)>>)),
     Forall("E", Tt, "auto", <<Let("E", Bv)>>),
     Forall("E", Tt, "auto", IF Mut(ty, V("E")) = <<>> THEN <<Nop>> ELSE Mut(ty, V("E"))),
     For("K", I(1), I(2), NoExpr, "auto", <<Let("C", A), Let("D", UCall("FM", <<V("C")>>))>>),
     Forall("E", Tt, "auto", <<Let("E", Fresh(ty)), Let("C", V("E")), Let("E", V("C")), Let("D", V("E"))>>)
  >> \o Mut(ty, A) \o Mut(ty, Bv) \o Mut(ty, At(Tt, 0))
  \o (IF ty \in {"int", "str"} THEN << Let("U", Call("tup", <<A, Bv>>)), Do(SetAt(V("U"), 1, Bv)), Let("A", Item(V("U"), 2)), Let("B", Item(V("U"), 1)) >> ELSE << >>)
  \o (IF ty = "str" THEN << For("K", I(1), I(2), NoExpr, "auto", <<Let("C", Mem(Str("lit"), "concat", <<A>>)), Let("D", Bin("+", Str("x"), A)), Let("G", Bin("+", A, Str("y")))>>),
                            For("K", I(1), I(2), NoExpr, "auto", <<Let("C", Bin("+", Bin("+", A, Bv), A))>>) >> ELSE << >>)
  \o (IF ty = "int" THEN << For("K", I(1), I(3), NoExpr, "auto", <<Let("C", Bin("+", I(1), A)), Let("A", Bin("+", Bin("*", A, I(2)), Bv))>>),
                            Forall("E", Tt, "auto", <<Let("E", Bin("+", V("E"), I(1))), Let("C", Bin("+", V("C"), V("E"))), Let("D", V("E"))>>) >> ELSE << >>)
  \o (IF ty = "str" THEN << Forall("E", Tt, "auto", <<Let("E", Bin("+", V("E"), Str("!"))), Let("C", Bin("+", V("C"), V("E"))), Let("D", V("E"))>>) >> ELSE << >>)

Prelude(ty) == << FuncFor(ty), Let("A", Init0(ty)), Let("B", Fresh(ty)), Let("T", Call("tab", <<I(2), Init0(ty)>>)), Let("C", Init0(ty)) >>
               \o (IF ty \in {"int", "str"} THEN <<Let("U", Call("tup", <<Init0(ty), Fresh(ty)>>))>> ELSE <<>>)

RECURSIVE Seqs(_, _)
Seqs(n, k) == IF n = 0 THEN {<<>>} ELSE {Append(h, c) : h \in Seqs(n - 1, k), c \in 1..k}

(* ---- relation-only family: evaluating an expression changes no variable, twice gives the same ---- *)
\* No expected values are needed: every variable, table element and tuple item of every type is used as an operand
\* of every operator / converter (as left and as right operand, next to temporaries), the expression is evaluated
\* twice (the two results must be equal) and the dump afterwards must equal the dump before.
MPrelude == "VI = 1; VD = 2.5; VS = \"s\"; VB = true; VT = tab(2, 1); VTS = tab(2, \"a\"); VU = tup(1, \"a\", 2.5); VR = raw(\"ab\"); VZ = 2 + 3 * ii;\n"
            \o "VTT = tab(2, tab(1, 1)); VTU = tab(2, tup(1, \"a\")); VTD = tab(2, 1.5); VNI = int(); VNS = str(); VNB = bool(); VN = null; if false then VUN = true; VUS = \"u\"; end if;\n"
            \o "function FO(X) return undefined is begin return X; end;\nfunction FT(X) return undefined is begin Y = X; return typeof(Y); end;\n"
            \* locals and parameters of a call are places too: a local that is set on one path only, read (twice) before it is set;
            \* the second evaluation of FL(..) runs in the recycled context of the first
            \o "function FL(N) return undefined is begin if N > 100 then L = \"big\"; M = 5; end if; "
            \o "return tup(isnull(L), isnull(L), typeof(L), typeof(L), isnull(M + 1), isnull(M + 1), isnull(L + \"x\"), isnull(L), isnull(not (M == 1)), isnull(M), isnull(N), N + 0, N + 0); end;\n"
            \o "function FP(P, Q) return undefined is begin return tup(isnull(P), isnull(P), isnull(Q), isnull(Q), typeof(P), typeof(P), isnull(P == Q), isnull(P), typeof(Q)); end;"
Places == << "VI", "VD", "VS", "VB", "VR", "VZ", "VNI", "VNS", "VNB", "VN", "VUN", "VUS", "VT", "VU", "VT.at(0)", "VTS.at(1)", "VTD.at(0)", "VU@1", "VU@2", "VU@3",
             "VTT.at(0).at(0)", "VTT.at(1)", "VTU.at(1)@1", "VTU.at(1)@2", "VTU.at(0)", "ii", "null", "\"lit\"", "7", "2.5" >>
Temps == << "(VD + VD)", "(VI * VI)", "num(2)", "(VS + VS)", "FO(VI)", "FO(VD)", "(VZ + VZ)", "int()", "bool()" >>
MOps == << "+", "-", "*", "/", "%", "**", "&", "|", "^", "<<", ">>", "==", "!=", "<", "<=", ">", ">=", "and", "or", "xor" >>
MUn(x) == << "isnull(" \o x \o ")", "typeof(" \o x \o ")", "str(" \o x \o ")", "not " \o x, "-" \o x, "(" \o x \o ").count()", "FO(" \o x \o ")", "FT(" \o x \o ")",
             "tup(" \o x \o ", 1)", "tab(1, " \o x \o ")", "num(" \o x \o ")", "int(" \o x \o ")", "bool(" \o x \o ")", "raw(" \o x \o ")", "abs(" \o x \o ")",
             "(" \o x \o ").concat(" \o x \o ")" >>
SFns == {<<"str(", ")">>, <<"FO(", ")">>, <<"upper(", ")">>, <<"lower(", ")">>, <<"trim(", ")">>, <<"ltrim(", ")">>, <<"rtrim(", ")">>, <<"substr(", ", 0)">>, <<"lsubstr(", ", 9)">>,
         <<"rsubstr(", ", 9)">>, <<"replace(", ", \"q\", \"r\")">>, <<"(", " + \"\")">>, <<"tup(", ", 1)@1">>, <<"tab(1, ", ").at(0)">>}
SPlaces == {"VS", "VTS.at(1)", "VU@2", "VTU.at(1)@2", "\"lit\""}
SMuts == {".concat(\"!\")", ".insert(0, \"!\")", ".delete(0)", ".put(0, 65)"}
MExprs == {Places[l] \o " " \o MOps[o] \o " " \o Places[r] : l \in DOMAIN Places, o \in DOMAIN MOps, r \in DOMAIN Places}
          \cup {Temps[l] \o " " \o MOps[o] \o " " \o Places[r] : l \in DOMAIN Temps, o \in DOMAIN MOps, r \in DOMAIN Places}
          \cup {Places[l] \o " " \o MOps[o] \o " " \o Temps[r] : l \in DOMAIN Places, o \in DOMAIN MOps, r \in DOMAIN Temps}
          \cup UNION {{MUn(Places[l])[j] : j \in 1..15} : l \in DOMAIN Places}
\* calls whose body reads unset locals and null parameters (evaluated twice: fresh, then recycled callee context)
          \cup {"FL(1)", "FL(500)", "FL(VI)", "FP(null, 1)", "FP(int(), str())", "FP(VNI, VNS)", "FP(VN, VUN)", "FP(VI, VNB)"}
\* an in-place member applied to a value DERIVED from a place (a conversion, a function of it, a part of it) must not reach the place
          \cup {f[1] \o x \o f[2] \o mm : f \in SFns, x \in SPlaces, mm \in SMuts}
          \cup {f[1] \o "VR" \o f[2] \o mm : f \in {<<"raw(", ")">>, <<"FO(", ")">>, <<"subraw(", ", 0)">>, <<"b64dec(b64enc(", "))">>}, mm \in {".concat(66)", ".put(0, 66)", ".delete(0)", ".insert(0, 66)"}}
          \cup {"FO(VT)" \o mm : mm \in {".concat(2)", ".put(0, 9)", ".delete(0)", ".insert(0, 9)"}} \cup {"FO(VU).set@1(5)", "FO(VTT).at(0).concat(7)", "FO(VTU).at(0).set@1(9)", "tab(1, VT).at(0).concat(2)", "tup(VT, 1)@1.concat(2)"}
\* (x).concat(x) changes its receiver by definition: only for receivers that are not places
          \cup {MUn(Temps[l])[16] : l \in DOMAIN Temps} \cup {"null.concat(\"a\")", "\"lit\".concat(\"a\")", "str().concat(\"a\")", "tab(1, 1).concat(2)", "raw(1, 65).concat(66)"}
Flat(ss) == LET F[i \in 0..Len(ss)] == IF i = 0 THEN <<>> ELSE F[i - 1] \o ss[i] IN F[Len(ss)]
MSeq == SetToSeq(MExprs)
MChunk == 40
MScenario(c) ==
  LET lo == c * MChunk + 1  hi == IF lo + MChunk - 1 > Len(MSeq) THEN Len(MSeq) ELSE lo + MChunk - 1 IN
  [prop |-> "C05", key |-> "M",
   steps |-> << [op |-> "exec", ctx |-> 0, free |-> TRUE, prelude |-> TRUE, text |-> MPrelude], [op |-> "dump", ctx |-> 0, free |-> TRUE] >>
             \o Flat([j \in 1..(hi - lo + 1) |-> << [op |-> "expr", ctx |-> 0, twice |-> TRUE, text |-> MSeq[lo + j - 1]],
                                                    [op |-> "dump", ctx |-> 0, unchanged_since |-> 2] >>])]
VARIABLE p
Init == p \in {[ty |-> "M", h |-> <<c>>] : c \in 0..((Len(MSeq) - 1) \div MChunk)} \cup
              {[ty |-> ty, h |-> h] : ty \in Types, h \in {<<>>}} \cup
              UNION {{[ty |-> ty, h |-> h] : h \in UNION {Seqs(n, Len(Pool(ty))) : n \in 1..H}} : ty \in Types}
Next == UNCHANGED p
ExecStep(prog) == [op |-> "exec", ctx |-> 0, ast |-> prog, text |-> Render(prog)]
Scenario(q) ==
  IF q.ty = "M" THEN MScenario(q.h[1]) ELSE
  LET pool == Pool(q.ty)
      Steps[j \in 0..Len(q.h)] ==
        IF j = 0 THEN << ExecStep(Prelude(q.ty)), [op |-> "dump", ctx |-> 0] >>
        ELSE Steps[j - 1] \o << ExecStep(<<pool[q.h[j]]>>), [op |-> "dump", ctx |-> 0] >>
  IN [prop |-> "C05", key |-> q.ty, steps |-> Steps[Len(q.h)]]
Emit == PrintT("@@S " \o ToJson(Scenario(p)))
=============================================================================
