INIT InitMC
NEXT Next
INVARIANT InvOwned
INVARIANT InvClosable
INVARIANT InvPreSound
CONSTRAINT Bounded
VIEW View
CHECK_DEADLOCK FALSE
