INIT InitRound
NEXT Stutter
INVARIANT EmitRound
CHECK_DEADLOCK FALSE
