SPECIFICATION SimSpec
INVARIANT EmitSim
CHECK_DEADLOCK FALSE
