"""Per-property check recipes. Each recipe composes: TLC model checking of the design-level config,
TLC scenario generation, replay on the real code, TLC trace validation."""
import json, os, re, time, random
import vlib
from vlib import MachineryFailure, log

REGISTRY = {}


def prop(pid):
    def deco(f):
        REGISTRY[pid] = f
        return f
    return deco


class Run:
    def __init__(self, pid, tier, seed, replay=None):
        self.pid, self.tier, self.seed, self.replay_file = pid, tier, seed, replay
        self.dir = vlib.rundir(pid) if not replay else vlib.rundir(pid + '-replay')
        self.states = 0
        self.transitions = 0
        self.traces = 0
        self.scenarios = 0
        self.steps = 0
        self.samples = []
        self.mc_runs = []
        self.violations = []   # dicts: id, why, key, replay
        self.known_hits = {}
        self.extra = {}
        self.assumptions = []
        self.level = 'model_checking'
        self.exhaustive = None
        self.known = vlib.load_known()
        self.built = set()
        self.distinct_keys = set()

    @property
    def quick(self):
        return self.tier != 'thorough'

    def build(self, flavor='asan'):
        if flavor not in self.built:
            t = time.time()
            vlib.build(flavor)
            self.built.add(flavor)
            log('[%s] build %s %.1fs' % (self.pid, flavor, time.time() - t))

    # ---- design-level model checking -------------------------------------------------
    def mc(self, module, cfg, what, workers=16, timeout=1500, env=None, extra=None, xmx='12g'):
        t = time.time()
        res = vlib.tlc(module, cfg, self.dir, workers=workers, timeout=timeout, env=env, extra=extra, xmx=xmx)
        self.states += res['distinct']
        self.transitions += res['generated']
        run = {'module': module, 'cfg': cfg, 'what': what, 'distinct_states': res['distinct'],
               'states_generated': res['generated'], 'wall_s': round(time.time() - t, 1)}
        self.mc_runs.append(run)
        log('[%s] MC %s/%s: %d distinct, rc=%d, %.1fs' % (self.pid, module, cfg, res['distinct'], res['rc'], time.time() - t))
        if res['rc'] == 0:
            return res
        out = res['out']
        if 'Invariant' in out and 'is violated' in out or 'Temporal properties were violated' in out or 'Deadlock reached' in out:
            # the specification itself breaks the property: a design-level violation
            path = os.path.join(self.dir, 'mc_%s_%s.txt' % (module, cfg))
            open(path, 'w').write(out[-20000:])
            m = re.search(r'Invariant (\S+) is violated', out)
            self.violations.append({'id': 'mc:' + module, 'why': 'model checking: %s violated in %s' % (m.group(1) if m else 'property', cfg),
                                    'key': 'mc:%s:%s' % (module, cfg), 'replay': path})
            return res
        vlib.tlc_ok(res, 'model checking %s/%s' % (module, cfg))
        return res

    # ---- scenarios: generate -> replay -> validate ---------------------------------
    def gen(self, module, cfg, env=None, extra=None, workers=1, timeout=900):
        t = time.time()
        e = {'VERIF_SEED': str(self.seed), 'VERIF_TIER': self.tier}
        if env:
            e.update(env)
        scs, res = vlib.generate(module, cfg, self.dir, env=e, workers=workers, extra=extra, timeout=timeout)
        self.states += res['distinct']
        self.transitions += res['generated']
        self.mc_runs.append({'module': module, 'cfg': cfg, 'what': 'scenario generation', 'distinct_states': res['distinct'],
                             'states_generated': res['generated'], 'scenarios': len(scs), 'wall_s': round(time.time() - t, 1)})
        log('[%s] gen %s/%s: %d scenarios %.1fs' % (self.pid, module, cfg, len(scs), time.time() - t))
        if not scs:
            raise MachineryFailure('generator %s/%s produced no scenario:\n%s' % (module, cfg, res['out'][-2000:]))
        return scs

    def conform(self, scs, trace_module='TraceProg', trace_cfg='TraceProg.cfg', flavor='asan', harness='vdrive',
                env=None, tmo=10, batch=200, trace_env=None, workers=12):
        """Replay scenarios on the real code and validate the recorded trace with TLC."""
        self.build(flavor)
        if self.replay_file:
            scs = [json.load(open(self.replay_file))['scenario']]
            # a recorded scenario is replayed through the trace specification of its own family only
            if (scs[0].get('key') == 'session') != (trace_module == 'Trace_Cli'):
                return {}
        scs = vlib.number(vlib.dedupe(scs), start=self.scenarios + 1)
        t = time.time()
        obs = vlib.replay(scs, self.dir, flavor=flavor, harness=harness, env=env, tmo=tmo, batch=batch,
                          name='scn%d' % self.scenarios)
        t1 = time.time()
        tp = os.path.join(self.dir, 'trace%d.ndjson' % self.scenarios)
        vlib.merge_trace(scs, obs, tp)
        verdicts, res = vlib.validate(trace_module, trace_cfg, tp, self.dir, env=trace_env, workers=workers)
        nsteps = sum(len(s['steps']) for s in scs)
        expected_states = len(scs) + nsteps
        if res['distinct'] < len(scs):
            raise MachineryFailure('trace validation explored %d states for %d scenarios' % (res['distinct'], len(scs)))
        self.states += res['distinct']
        self.transitions += res['generated']
        self.traces += len(scs)
        self.steps += nsteps
        self.scenarios += len(scs)
        log('[%s] replay %d scenarios %.1fs, validation %.1fs (%d states), %d disagreements' %
            (self.pid, len(scs), t1 - t, time.time() - t1, res['distinct'], len(verdicts)))
        byid = {s['id']: s for s in scs}
        for s in scs:
            self.distinct_keys.add(s.get('key') or json.dumps(s['steps'], sort_keys=True)[:4000])
        if len(self.samples) < 3:
            for s in scs[:: max(1, len(scs) // 3)][:3]:
                self.samples.append({'steps': [{k: v for k, v in st.items() if k != 'ast'} for st in s['steps']],
                                     'observed': obs[s['id']].get('obs', [])[:2]})
        seen = set()
        for v in verdicts:
            if v['why'].startswith('UNDECIDED'):
                raise MachineryFailure('scenario %s left the modelled subset (generator bug): %s' %
                                       (v['id'], json.dumps(byid[v['id']]['steps'])[:1500]))
            if (v['id'], v['why']) in seen:
                continue
            seen.add((v['id'], v['why']))
            s = byid[v['id']]
            self.report(s, obs[s['id']], v['why'], v.get('k'))
        return obs

    def report(self, scenario, observed, why, k=None):
        key = scenario.get('key', '')
        text = ' | '.join(st.get('text', st.get('op', '')) for st in scenario['steps'])
        for kf in self.known.get('findings', []):
            if kf['property'] != self.pid:
                continue
            if re.search(kf.get('why_re', ''), why) and re.search(kf.get('key_re', ''), key) and \
               re.search(kf.get('text_re', ''), text, re.S):
                self.known_hits.setdefault(kf['name'], {'what': kf['what'], 'n': 0})['n'] += 1
                return
        path = os.path.join(self.dir, 'viol_%s.json' % scenario['id'])
        json.dump({'property': self.pid, 'why': why, 'step': k, 'scenario': scenario, 'observed': observed},
                  open(path, 'w'), indent=1)
        self.violations.append({'id': scenario['id'], 'why': why, 'key': key, 'replay': path, 'text': text[:300]})

    # ---- wrap up -----------------------------------------------------------------------
    def finish(self, wall):
        cov = {'states': max(self.states, 1), 'transitions': max(self.transitions, 1),
               'traces_validated_against_impl': self.traces,
               'samples': self.samples or [{'note': 'model checking only'}],
               'evaluations': self.scenarios, 'steps_validated': self.steps,
               'distinct_nontrivial': len(self.distinct_keys),
               'rule': 'scenarios are enumerated by TLC from the Gen_* specification (one TLC state per scenario), deduplicated by '
                       'content; distinct_nontrivial counts distinct scenario keys/contents replayed on the real code',
               'tlc_runs': self.mc_runs,
               'known_findings_hit': self.known_hits}
        if self.exhaustive is not None:
            cov['exhaustive'] = self.exhaustive
        cov.update(self.extra)
        vlib.write_evidence(self.pid, 'thorough' if not self.quick else 'quick', self.seed, self.level, cov, wall,
                            len(self.violations), self.assumptions)
        for name, h in sorted(self.known_hits.items()):
            print('KNOWN-FINDING: property=%s %s: %s (%d scenarios)' % (self.pid, name, h['what'], h['n']))
        for v in self.violations[:25]:
            print('VIOLATION property=%s replay=%s' % (self.pid, v['replay']))
            print('  why: %s | %s' % (v['why'], v.get('text', '')[:200]))
        if len(self.violations) > 25:
            print('  ... %d more violations' % (len(self.violations) - 25))
        print('property=%s tier=%s scenarios=%d states=%d violations=%d known=%d wall=%.1fs' %
              (self.pid, self.tier, self.scenarios, self.states, len(self.violations), len(self.known_hits), wall))
        return 1 if self.violations else 0


# =========================================================================================
@prop('C04')
def c04(r):
    r.assumptions += ['null type of a logical/relational result is boolean (C02 static typing)',
                      'sanitizer reports observed only on the replayed scenarios']
    r.mc('MC_Kleene', 'MC_Kleene.cfg', 'Kleene laws of the ideal layer; provenance independence of the implementation-shaped operand reuse')
    scs = r.gen('Gen_C04', 'Gen_C04.cfg')
    r.exhaustive = True
    r.conform(scs)


@prop('C07')
def c07(r):
    r.assumptions += ['error@2 (message text) is not compared',
                      'loop variables keep their last value after a for loop (observed, manual silent)',
                      'sanitizer reports are observed on the replayed scenarios only']
    depth = 2 if r.quick else 3
    r.mc('BlocControl', 'MC_C07.cfg', 'implementation-shaped control machinery (control stack, exec level, stop conditions, exception in flight; one operator per C++ function) '
         'refines the ideal layer and leaves no residue, as one unit and statement by statement, for every nesting of depth <= %d of 8 wrappers x 12 leaves' % depth,
         env={'MC_DEPTH': str(depth)}, timeout=3000)
    scs = r.gen('Gen_C07', 'Gen_C07.cfg', env={'GEN_DEPTH': str(depth), 'GEN_SAMPLE': '1'}, timeout=3000)
    r.exhaustive = True
    r.extra['bounds'] = 'nesting depth <= %d over 13 wrappers (8 handler sets, for, forall, while, if, call) x 10 leaves; batch and stepwise; probe + dump' % depth
    r.conform(scs)


@prop('C06')
def c06(r):
    r.assumptions += ['64-bit boundary constants are symbolic in the ideal layer (BigC): sound where the program does not overflow',
                      'value of the control variable after a for loop = last value visited (observed, manual silent)']
    r.mc('BlocForLoop', 'MC_C06.cfg', 'iteration test of FOR on 5-bit two\'s-complement integers = the ideal test on mathematical integers, and the stored next '
         'value never wraps, for all values of the control variable, both bounds and every step (506 880 cases)')
    depth = 2 if r.quick else 3
    scs = r.gen('Gen_C06', 'Gen_C06.cfg', env={'GEN_DEPTH': str(depth)}, timeout=3000)
    r.exhaustive = True
    r.extra['bounds'] = 'all for headers of the lattice {-2..3, null, MAX-2..MAX, MIN..MIN+2} x 7 steps x 3 directions; forall orders/writes; break/continue/return at the bottom of nestings of depth <= %d' % depth
    r.conform(scs)


@prop('C08')
def c08(r):
    r.assumptions += ['a declared but unassigned local reads as a null of unspecified type (wildcard in the ideal layer)']
    r.mc('BlocCallCache', 'MC_C08.cfg', 'implementation-shaped callee-context cache (createEnv / Env): every body starts with unset locals, no return condition and '
         'depth = caller + 1, no context is lost, for all interleavings of calls (binding ok / failing), local/return effects and returns of 2 functions, recursion limit 4, <= 5 contexts')
    h = 2 if r.quick else 3
    scs = r.gen('Gen_C08', 'Gen_C08.cfg', env={'GEN_DEPTH': str(h)}, timeout=3000)
    r.exhaustive = True
    r.extra['bounds'] = 'all call histories of length <= %d from a pool of 15 calls x 15 observed calls; loop re-evaluation; recursion depth 1,2,254..257,300; isolation rejects' % h
    r.conform(scs)


@prop('C05')
def c05(r):
    r.assumptions += ['objects (module handles) are shared by reference as documented and are covered by C17, not here']
    r.mc('MC_Kleene', 'MC_Kleene.cfg', 'LVALUE operand-reuse model: constants and variables are never overwritten by an operator result')
    h = 2 if r.quick else 3
    scs = r.gen('Gen_C05', 'Gen_C05.cfg', env={'GEN_DEPTH': str(h)}, timeout=3000)
    r.exhaustive = True
    r.extra['bounds'] = '6 value types x all statement sequences of length <= %d from an alias-stress pool of 17-27 statements, dump after every statement' % h
    r.conform(scs)


@prop('C09')
def c09(r):
    r.assumptions += ['unpinned cases (accepted with conversion or rejected; listed in Bloc.tla Unpinned/UnpinnedConcat) only have to keep tables uniform',
                      'a static type/rank error may be reported at compile time or at run time']
    r.mc('BlocTupleType', 'MC_C09.cfg', 'tuple type identity: with structural identity a table accepts exactly the tuples of its declaration (all pairs of declarations of <= 4 items '
         'over 6 item types); MC_C09_dev.cfg (identity = the implementation\'s 16-bit hash) has a counterexample = known finding D21')
    h = 2 if r.quick else 3
    scs = r.gen('Gen_C09', 'Gen_C09.cfg', env={'GEN_DEPTH': str(h)}, timeout=3000)
    r.exhaustive = True
    r.extra['bounds'] = '8 container kinds x (at/put/insert/delete/concat/count/set@/@) x 7-11 argument kinds x 14 positions, all single operations; all pairs of a reduced pool; forall lock programs'
    r.conform(scs)


@prop('C11')
def c11(r):
    r.assumptions += ['a derived text that the parser accepts is not judged (its meaning is unknown to the generator); only rejected texts are',
                      'names introduced only by the rejected text are exempt (they may exist as nulls)']
    r.mc('BlocParseTxn', 'MC_C11.cfg', 'implementation-shaped compilation unit (symbol re-typing with undo log, function table with statement-level rollback and unit journal): '
         'after a rejected unit every pre-existing name and function is as before, no body-less function stays callable, functions only the rejected unit declared are unknown; '
         '<= 3 units, 2 names x 2 types, 2 functions x 2 bodies')
    scs = r.gen('Gen_C11', 'Gen_C11.cfg', timeout=3000)
    r.exhaustive = True
    obs = r.conform(scs)
    rejected = sum(1 for o in obs.values() if len(o.get('obs', [])) > 2 and o['obs'][2].get('oc') == 'parse_error')
    r.extra['texts_actually_rejected'] = rejected
    r.extra['bounds'] = '10 victim programs x (cut | delete | replace) at every token position; prefix with $-variable, table, tuple, 3 functions; dump + probe program after each'
    if rejected < 100:
        raise MachineryFailure('only %d derived texts were rejected: the generator lost its bite' % rejected)


@prop('C03')
def c03(r):
    r.assumptions += ['IEEE-754 rounding of decimal results is not decided: an operation with a decimal operand is checked for its result type (decimal) only',
                      'num(i) may round to either neighbouring double when |i| >= 2^53 (as the manual says)',
                      'integer ** negative exponent is not pinned by the manual']
    r.mc('MC_Int64', 'MC_Int64.cfg' if r.quick else 'MC_Int64_full.cfg',
         'limb arithmetic = mathematical definition of every operator for all operand pairs at width 8 (quick: 256 x 21 boundary values)')
    scs = r.gen('Gen_C03', 'Gen_C03.cfg', timeout=3000)
    r.exhaustive = True
    obs = r.conform(scs, trace_module='Trace_C03', trace_cfg='Trace_C03.cfg', workers=16)
    npairs = sum(len(s['steps'][0]['pairs']) for s in scs)
    r.extra['operand_pairs_checked'] = npairs
    r.extra['bounds'] = '64-bit lattice {0,+-1..3,2^k,2^k+-1,-(2^k),-(2^k)+-1,MIN,MIN+1,MAX-1,MAX} for k in %s, squared, x 14 binary operators; shifts x displacements -130..130 and huge; ** x exponents 0..70,100,1000,65537; nulls; int() over 66 boundary doubles; num() over the lattice' % ('1..63' if not r.quick else '{2,7,8,15,16,31,32,33,52,53,62,63}')


@prop('C02')
def c02(r):
    r.assumptions += ['user functions in generated programs declare return type undefined or the type they really return (the manual makes declarations advisory)',
                      'a tuple declaration with opaque items is matched item-wise',
                      'in-place methods on variables are evaluated once (not side-effect free)']
    l = 2 if r.quick else 3
    scs = r.gen('Gen_C02', 'Gen_C02.cfg', env={'GEN_DEPTH': str(l)}, timeout=3000)
    r.exhaustive = True
    r.extra['bounds'] = 'expression matrix: 43 operand kinds^2 x 24 binary operators, 5 unary, 40+17+6 built-ins, 6 members, tuple access/mutation; batch vs stepwise over all sequences of <= %d statements from a type-changing pool of 31' % l
    obs = r.conform(scs, workers=16)
    nexpr = sum(1 for s in scs for st in s['steps'] if st['op'] == 'expr')
    ntyped = sum(1 for o in obs.values() for st in o.get('obs', []) if st.get('op') == 'expr' and st.get('oc') == 'ok' and st.get('sty', {}).get('m') != 'undef')
    r.extra['expressions'] = nexpr
    r.extra['expressions_evaluated_with_defined_static_type'] = ntyped


@prop('C16')
def c16(r):
    r.assumptions += ['the two modules are csv and utf8 (safe constructors without side effects); the host API is exercised through the C++ PluginManager the C API wraps',
                      'every scenario starts with an empty registry (PluginManager::destroy between scenarios)']
    r.mc('BlocPlugin', 'MC_C16.cfg' if not r.quick else 'MC_C16_quick.cfg',
         'all histories of unban/clear/clone/import/import-by-path/include/ctor(top,function)/typed declaration: no ungranted object in an untrusted context')
    r.mc('BlocPlugin', 'MC_C16_perm.cfg', 'permission sub-alphabet (grant, revoke all, constructors with and without arguments in the untrusted context), all histories of length <= 7')
    scs = r.gen('Gen_C16', 'Gen_C16.cfg' if r.quick else 'Gen_C16_thorough.cfg', workers=8, timeout=3000)
    r.exhaustive = True
    r.extra['bounds'] = ('all histories of length %d over 2 modules, 3 contexts (trusted, untrusted, clone of either); '
                         'all histories of length %d over the permission sub-alphabet (grant m, revoke all, constructor of m with / without arguments in the untrusted context)'
                         % ((3, 4) if r.quick else (4, 6)))
    r.conform(scs, trace_module='Trace_C16', trace_cfg='Trace_C16.cfg', workers=16)
    scs2 = r.gen('Gen_C16', 'Gen_C16_perm.cfg' if r.quick else 'Gen_C16_perm_thorough.cfg', workers=8, timeout=3000)
    r.conform(scs2, trace_module='Trace_C16', trace_cfg='Trace_C16.cfg', workers=16)
    # the host unloads everything (bloc_deinit_plugins) between grants, revocations, imports and constructors
    r.mc('BlocPlugin', 'MC_C16_deinit.cfg', 'sub-alphabet with bloc_deinit_plugins (grant, revoke all, unload all, import again, constructor in the untrusted context), all histories of length <= 6')
    scs3 = r.gen('Gen_C16', 'Gen_C16_deinit.cfg' if r.quick else 'Gen_C16_deinit_thorough.cfg', workers=8, timeout=3000)
    r.conform(scs3, trace_module='Trace_C16', trace_cfg='Trace_C16.cfg', workers=16)
    r.extra['bounds'] += '; all histories of length %d over grant, revoke all, unload all (bloc_deinit_plugins), import again, constructor (1 module)' % (5 if r.quick else 7)


@prop('C15')
def c15(r):
    r.assumptions += ['preconditions taken as documented or implied: handles are used only while alive; an executable/expression is used only '
                      'with the symbol table it was compiled against (not after bloc_ctx_purge of its context); bloc_execute2 only with a clone taken '
                      'after the executable was compiled; a value given to bloc_ctx_store_variable is only freed afterwards; '
                      'every API-stored name keeps one type for the whole history',
                      'memory verdict: LeakSanitizer recoverable leak check after the caller released every handle, AddressSanitizer/UBSan during the calls',
                      'values are observed only through the typed accessors of bloc_capi.h']
    r.mc('Gen_C15', 'MC_C15.cfg', 'handle machine: every reachable state within the bound keeps library-owned pointers inside live contexts, every enabled call '
         'touches only live handles, and the documented release calls always apply and leave nothing owned',
         env={'MC_LEN': '2'}, timeout=3000)
    num = 400 if r.quick else 4000
    ln = 16 if r.quick else 24
    # one worker: TLC's RandomElement draws the same sequence in every worker thread
    scs = r.gen('Gen_C15', 'Gen_C15.cfg', env={'GEN_LEN': str(ln)}, workers=1, timeout=3000,
                extra=['-simulate', 'num=%d' % num, '-depth', '80', '-seed', str(r.seed)])
    r.exhaustive = False
    r.extra['bounds'] = ('%d random walks x 3 cut lengths (<= %d calls + release) over 22 kinds of call, %d program texts (%d rejected by the parser, 5 failing at run time), '
                         '%d expression texts, 16 value kinds, 2 contexts (original + clone), 3/2/2/2 value/pointer/executable/expression handles' % (num, ln, 78, 59, 21))
    lenv = {'VDRIVE_LEAKCHECK': '1', 'ASAN_OPTIONS': 'detect_leaks=1:abort_on_error=0:halt_on_error=1:allocator_may_return_null=1:fast_unwind_on_malloc=0'}
    r.conform(scs, trace_module='Trace_C15', trace_cfg='Trace_C15.cfg', workers=16, batch=1, env=lenv)
    # deterministic part: every text of the pools compiled twice in a context with stored variables, run / evaluated, released
    scs0 = r.gen('Gen_C15', 'Gen_C15_all.cfg', workers=4, timeout=3000)
    r.extra['bounds'] += '; every program text and every expression of the pools once (compiled twice, run / evaluated, released)'
    r.conform(scs0, trace_module='Trace_C15', trace_cfg='Trace_C15.cfg', workers=16, batch=1, env=lenv)
    if not r.quick:
        # exhaustive: every sequence of 2 calls after each of the 8 seeds
        scs2 = r.gen('Gen_C15', 'Gen_C15_bfs.cfg', env={'BFS_LEN': '2'}, workers=16, timeout=3000)
        r.extra['bounds'] += '; every sequence of 2 calls after each of 8 seeds (exhaustive)'
        r.conform(scs2, trace_module='Trace_C15', trace_cfg='Trace_C15.cfg', workers=16, batch=1, env=lenv)


@prop('C17')
def c17(r):
    r.assumptions += ['objects are those of the verification module libbloc_vobj (lives in /verif/harness), which logs create/method/destroy and keeps destroyed objects in a graveyard',
                      'temporaries may delay a destruction until the contexts and programs are released (the property allows that)']
    h = 2 if r.quick else 3
    scs = r.gen('Gen_C17', 'Gen_C17.cfg', env={'GEN_DEPTH': str(h)}, timeout=3000)
    r.exhaustive = True
    r.extra['bounds'] = 'all sequences of <= %d statements from a pool of 27 reference-manipulating statements; clone/free orders; purge' % h
    r.conform(scs, workers=16)


@prop('C12')
def c12(r):
    r.assumptions += ['the unparse functions (Executable::unparse) produce the text; the interactive save command writes the same text (covered by C19 scenarios)',
                      'relations are non-associative in the grammar (chaining is a syntax error): generated texts parenthesise them']
    r.mc('BlocGrammar', 'MC_C12.cfg', 'grammar levels and associativity as a recursive-descent parser + minimal-parentheses unparser: Parse(Unparse(e)) = e and every '
         'parenthesis is needed, for all 24 426 trees of depth <= 2 over one operator per level, 2 unary operators, 2 leaves')
    scs = r.gen('Gen_C12', 'Gen_C12.cfg', timeout=3000)
    r.exhaustive = True
    r.extra['bounds'] = 'all ordered operator pairs (parent, child, side) of 6 arithmetic, 6 relational, 3 logical operators + unary shapes with minimal parentheses; 150 statement-level programs; 55 literal/statement forms (relation only)'
    r.conform(scs, workers=8)
    # the save command in a session (BlocCli): statements; save; run; clear; load; run; list -- replayed in the real command
    s2 = r.gen('Gen_Cli', 'Gen_Cli_round.cfg', env={'GEN_PART': 'round', 'ROUND_LEN': '3' if r.quick else '4'}, workers=8, timeout=3000)
    r.conform(s2, trace_module='Trace_Cli', trace_cfg='Trace_Cli.cfg', workers=16, tmo=60)
    r.extra['bounds'] += '; interactive sessions: every accepted sequence of <= %d statements (of 14) then save, run, clear, load, run, list' % (3 if r.quick else 4)


@prop('C13')
def c13(r):
    r.assumptions += ['carriage returns are removed by the readers (built-in and the harness fragment reader alike)',
                      'the reference delivery is the built-in string reader (line by line)']
    r.mc('BlocLexer', 'MC_C13.cfg', 'scanning per delivered unit = scanning the whole text, for all texts and all fragmentations, when units are whole lines; fails for arbitrary fragments')
    scs = r.gen('Gen_C13', 'Gen_C13.cfg', timeout=3000)
    r.exhaustive = True
    r.extra['bounds'] = 'all sequences of <= 3 lexemes from 47 lexeme classes x every single split + sizes 1,2,3,5; 5 seed programs x pads 985..1030 x LF/CRLF x fragment sizes 1,2,7,64,1000'
    r.conform(scs, workers=16)


@prop('C19')
def c19(r):
    r.assumptions += ['the interactive mode output is compared after removing the banner, prompts, Elapsed lines and error reports (counted)',
                      'argument vectors in judged scenarios are ASCII; exit status 1 is the failure status']
    scs = r.gen('Gen_C19', 'Gen_C19.cfg', timeout=3000)
    r.exhaustive = True
    r.extra['bounds'] = '17 programs (10 return shapes, 5 failures, function/handler) x 4 argument vectors x {file, -, --out}; 8 invalid texts x 3 modes; 3 interactive sessions x 2 argument vectors; 24 expressions + 4 invalid for -e'
    r.conform(scs, workers=8, tmo=60)
    # the interactive session as a state machine (BlocCli): design properties, then behaviours replayed in the real command
    r.mc('BlocCli', 'MC_Cli.cfg', 'interactive session (statements, run, clear, list, save, load, = expr): the pool and every saved file compile on their own '
         'in a cleared session, clear leaves nothing, only save writes a file; all command sequences of length <= %d over 24 commands' % (3 if r.quick else 4),
         env={'MC_LEN': '3' if r.quick else '4'}, timeout=3000)
    s2 = r.gen('Gen_Cli', 'Gen_Cli_bfs.cfg', env={'GEN_PART': 'bfs', 'BFS_LEN': '2' if r.quick else '3'}, workers=8, timeout=3000)
    r.conform(s2, trace_module='Trace_Cli', trace_cfg='Trace_Cli.cfg', workers=16, tmo=60)
    s3 = r.gen('Gen_Cli', 'Gen_Cli_sim.cfg', env={'GEN_LEN': '12' if r.quick else '20'}, workers=1, timeout=3000,
               extra=['-simulate', 'num=%d' % (300 if r.quick else 3000), '-depth', '40', '-seed', str(r.seed)])
    r.conform(s3, trace_module='Trace_Cli', trace_cfg='Trace_Cli.cfg', workers=16, tmo=60)
    r.extra['bounds'] += ('; interactive sessions: every sequence of %d commands (14 statements, 3 expressions, run/clear/list/save/load on 2 files) after each of 4 seeds, '
                          '%d random sessions of %d commands' % ((2, 300, 12) if r.quick else (3, 3000, 20)))


@prop('C01')
def c01(r):
    r.level = 'exploration'
    r.assumptions += ['memory safety and absence of undefined behaviour are OBSERVED (ASan/UBSan) on the replayed texts, not proved',
                      'stack/heap exhaustion is out of scope: generated texts have bounded nesting; allocation sizes are bounded (tab/raw counts are small)']
    scs = r.gen('Gen_C01', 'Gen_C01.cfg', timeout=3000)
    r.extra['bounds'] = 'vocabulary product: 44 built-ins x 1 arg x 43 kinds x {direct, opaque}, 17 x 2 args, 6 x 3 args, 25 binary x 43^2, members, @/set@ with huge ranks; single edits (cut, delete, duplicate, swap, replace) of 3 seed programs at every token; 14 byte classes spliced at every byte position'
    obs = r.conform(scs, workers=16, tmo=60)
    texts = sum(len(s['steps']) for s in scs)
    r.extra['texts'] = texts


@prop('C10')
def c10(r):
    r.assumptions += ['pinned results only for in-range arguments (0-based begin, count >= 0); elsewhere: any BLOC outcome, a returned string must be a contiguous part of the argument',
                      'isnum(s) <=> num(s) succeeds is checked as a relation between the two recorded evaluations; a numeral followed by junk is accepted by both (consistent)',
                      'tokenize is checked for totality only']
    scs = r.gen('Gen_C10', 'Gen_C10.cfg', timeout=3000)
    r.exhaustive = True
    r.extra['bounds'] = 'all strings of length <= 3 (quick) / 4 over {blank,a,A,7,comma,quote,z} x position lattice {MIN,-1,0,1,n-1,n,n+1,MAX,null}; numeric-syntax strings of length <= 3/4 over {blank,+,-,0,9,.,e,x,a}; conversion lattice'
    r.conform(scs, workers=16)


@prop('C14')
def c14(r):
    r.assumptions += ['data races are observed by ThreadSanitizer on the replayed programs (clang -fsanitize=thread build of the working tree), not proved',
                      'generated programs do not print values that depend on random()']
    r.mc('BlocThreads', 'MC_C14.cfg', 'all interleavings of 3 clone threads over a shared program: no unsynchronised conflicting access, every thread observes the sequential result')
    h = 3 if r.quick else 4
    s1 = r.gen('Gen_C14', 'Gen_C14.cfg', env={'GEN_DEPTH': str(h), 'GEN_PART': 'S'}, timeout=3000)
    r.conform(s1, workers=16)
    s2 = r.gen('Gen_C14', 'Gen_C14.cfg', env={'GEN_DEPTH': str(h), 'GEN_PART': 'T'}, timeout=3000)
    log = os.path.join(r.dir, 'tsan')
    r.conform(s2, flavor='tsan', workers=4, tmo=120, batch=1,
              env={'TSAN_OPTIONS': 'halt_on_error=0 exitcode=0 log_path=' + log, 'VDRIVE_TSAN_LOG': log})
    r.exhaustive = True
    r.extra['bounds'] = 'clone independence: all valid sequences of <= %d actions over 3 contexts (run 5 mutating programs in any context, purge/free the original, free a clone), dumps of every live context after each; threads: 3 programs x {2,4,8} threads x {1,25} repetitions under ThreadSanitizer' % h


@prop('C18')
def c18(r):
    r.assumptions += ['utf8: at(i)/insert use the module\'s own integer form of a character (its UTF-8 bytes packed big-endian); ill-formed texts: totality and memory safety only',
                      'csv: the round trip is evaluated by the script (bytewise string equality), line-by-line feeding keeps the line break on each line (the module\'s convention)',
                      'file: mode w+ / wb+, every operation preceded by seekcur(0) as C streams require between reads and writes; plplot is not built',
                      'sqlite3: independent reader = the SQLite C library opened read-only by the harness']
    r.mc('MC_Utf8', 'MC_Utf8.cfg', 'the independent UTF-8 decoder recovers the characters of every well-formed text of <= 3 characters and rejects ill-formed ones')
    r.mc('ModCsv', 'MC_Csv.cfg', 'Deser(Ser(row)) = row and line-by-line feeding, for all rows of <= 2 fields of <= 2 symbols over {separator, quote, LF, CR, x, blank}')
    scs = r.gen('Gen_C18', 'Gen_C18.cfg', timeout=3000)
    r.exhaustive = True
    r.extra['bounds'] = 'utf8: all texts of <= 3 characters out of 5 (1..4 bytes) x positions {0,1,n-1,n,n+1} x counts {0,1,2,5} + 85 ill-formed texts; csv: 6738 rows x 2 formats; file: all sequences of <= 3 of 15 operations x 2 modes; sqlite3: 14x14 value pairs in 5-column rows'
    r.conform(scs, workers=16)
