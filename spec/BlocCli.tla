------------------------------ MODULE BlocCli ------------------------------
(***************************************************************************)
(* The interactive session of the bloc command (apps/cli_parser.cpp) as a  *)
(* state machine.  The session owns a context (the ideal state S of        *)
(* Bloc.tla) and a pool of compiled statements; every line typed is either *)
(* a statement (compiled against the context, run, and appended to the     *)
(* pool whatever the outcome of the run) or a session command:             *)
(*   run      executes the pool from its first statement in the context as *)
(*            it is (no reset); stops at an error or a top-level return     *)
(*   clear    empties the pool and purges the context (variables,          *)
(*            functions, $ARG)                                             *)
(*   list     shows the text of the pool                                   *)
(*   save f   writes that same text to a file                              *)
(*   load f   compiles the file against the context and appends its        *)
(*            statements to the pool WITHOUT running them: their names are  *)
(*            declared (a declared variable reads as the null of its type), *)
(*            their functions are defined; the text is echoed              *)
(*   = e      evaluates an expression and shows the value                  *)
(* One action per command.  `last` is what the command must show (after    *)
(* removing prompts, Elapsed lines and error reports, which are counted).  *)
(*                                                                         *)
(* A statement or a file is refused by the compiler when it reads a name   *)
(* the context does not know (needv / needf); a refused statement changes  *)
(* nothing.  What a refused FILE leaves behind is not pinned: the session  *)
(* is then `unk` and nothing more is claimed.                              *)
(*                                                                         *)
(* Named deviation of the implementation, outside the listed properties:   *)
(* an `= e` line that fails swallows the next input line (the error path   *)
(* peeks the next token to decide whether to drop the rest of the line,    *)
(* after the end of line has already been consumed).  The conformance      *)
(* driver types an empty line after every `=` command so that nothing is   *)
(* swallowed; the model does not contain the deviation.                    *)
(***************************************************************************)
EXTENDS Bloc, TLC, IOUtils

\* the session: [S : the context, pool : sequence of statement commands (the compiled statements, in order),
\*               files : file number -> [saved, prog], unk : nothing more is claimed, last : what the last command must show]
VARIABLES m,
          hist    \* the commands so far (history, for generating scenarios)
cvars == <<m, hist>>

Files == {1, 2}

(* ------------------------------ alphabet ------------------------------ *)
\* statement command: the ast, the names it reads, the functions it calls, the variables it declares (with type)
St(id, s, needv, needf, defs) == [c |-> "stmt", id |-> id, s |-> s, needv |-> needv, needf |-> needf, defs |-> defs]
Ex(id, e, needv, needf) == [c |-> "expr", id |-> id, e |-> e, needv |-> needv, needf |-> needf]
XI == <<"X", TInt>>
Stmts == {
  St("x1",   Let("X", I(1)), {}, {}, <<XI>>),
  St("xinc", Let("X", Bin("+", V("X"), I(1))), {"X"}, {}, <<>>),
  St("px",   PrintS(<<Str("x="), V("X")>>), {"X"}, {}, <<>>),
  St("f2",   Func("F", <<"A">>, <<Return(Bin("*", V("A"), I(2)))>>), {}, {}, <<>>),
  St("f10",  Func("F", <<"A">>, <<Return(Bin("+", V("A"), I(10)))>>), {}, {}, <<>>),
  St("pf",   PrintS(<<UCall("F", <<V("X")>>)>>), {"X"}, {<<"F", 1>>}, <<>>),
  St("ret",  Return(Bin("*", V("X"), I(2))), {"X"}, {}, <<>>),
  St("div",  PrintS(<<Bin("/", I(1), Bin("-", V("X"), V("X")))>>), {"X"}, {}, <<>>),
  St("put",  PutS(<<Str("a")>>), {}, {}, <<>>),
  St("for",  For("I", I(1), I(2), NoExpr, "auto", <<Let("X", Bin("+", V("X"), V("I")))>>), {"X"}, {}, <<<<"I", TInt>>>>),
  St("t",    Let("T", Call("tab", <<I(2), V("X")>>)), {"X"}, {}, <<<<"T", TTab(TInt)>>>>),
  St("pt",   PrintS(<<Mem(V("T"), "count", <<>>), Mem(V("T"), "at", <<I(1)>>)>>), {"T"}, {}, <<>>),
  \* a print that fails after it has written something: the text stays in the context's stream until the next completed print
  St("pd",   PrintS(<<Str("p="), Bin("/", I(1), Bin("-", V("X"), V("X")))>>), {"X"}, {}, <<>>),
  \* the arguments of the command ($ARG is an ordinary variable of the session: `clear` removes it), a typed declaration
  St("parg", PrintS(<<Mem(V("$ARG"), "count", <<>>)>>), {"$ARG"}, {}, <<>>),
  St("dn",   LetN("D", TStr), {}, {}, <<<<"D", TStr>>>>),
  St("pdn",  PrintS(<<Call("isnull", <<V("D")>>), Call("typeof", <<V("D")>>)>>), {"D"}, {}, <<>>),
  St("exc",  Begin(<<RaiseS("E1")>>, <<[w |-> "E1", b |-> <<PrintS(<<Str("handled")>>)>>]>>), {}, {}, <<>>),
  St("if",   If(Bin(">", V("X"), I(1)), <<PrintS(<<Str("big")>>)>>, <<PrintS(<<Str("small")>>)>>), {"X"}, {}, <<>>) }
Exprs == { Ex("ex", Bin("+", V("X"), I(1)), {"X"}, {}), Ex("ef", UCall("F", <<I(2)>>), {}, {<<"F", 1>>}), Ex("ed", Bin("/", I(1), I(0)), {}, {}) }
Session == {[c |-> "run"], [c |-> "clear"], [c |-> "list"]} \cup {[c |-> "save", f |-> f] : f \in Files} \cup {[c |-> "load", f |-> f] : f \in Files}
CmdAlphabet == Stmts \cup Exprs \cup Session
StmtById(id) == CHOOSE x \in Stmts : x.id = id

(* ------------------------------ the context --------------------------- *)
FuncSigs(Tx) == {<<Tx.funcs[i].n, Len(Tx.funcs[i].ps)>> : i \in DOMAIN Tx.funcs}
Accepts(c, Tx) == c.needv \subseteq DOMAIN Tx.vars /\ c.needf \subseteq FuncSigs(Tx)
Fresh(Tx) == [Tx EXCEPT !.sig = "", !.err = NoErr, !.hasrv = FALSE, !.rv = VNil, !.out = "", !.fl = -1]
Settled(Tx) == [Tx EXCEPT !.sig = "", !.err = NoErr, !.hasrv = FALSE, !.rv = VNil, !.out = "", !.fl = -1]
\* The context writes to a stream of its own (a duplicate of standard output) that is flushed when a print / put completes.
\* pend = what it has written and not yet flushed.  What a command shows of the context's output, and what stays pending:
Piece(s, a, b) == IF a > b THEN "" ELSE SubSeq(s, a, b)
Flush(pend, Tx) == IF Tx.fl >= 0 THEN [shown |-> pend \o Piece(Tx.out, 1, Tx.fl), pend |-> Piece(Tx.out, Tx.fl + 1, Len(Tx.out))]
                   ELSE [shown |-> "", pend |-> pend \o Tx.out]
\* compiling a statement declares its variables (a declared variable without a value reads as the null of its type) and defines its functions
RECURSIVE Declare(_, _)
Declare(defs, Tx) == IF defs = <<>> THEN Tx
                    ELSE LET d == Head(defs) IN Declare(Tail(defs), IF d[1] \in DOMAIN Tx.vars THEN Tx ELSE SetVar(Tx, d[1], VNull(d[2])))
Compile(c, Tx) == Declare(c.defs, DeclFuncs(<<c.s>>, Tx))
\* a file is compiled statement after statement; FALSE when one of them is refused
RECURSIVE CompileAll(_, _)
CompileAll(prog, Tx) == IF prog = <<>> THEN [ok |-> TRUE, Tx |-> Tx]
                       ELSE IF ~Accepts(Head(prog), Tx) THEN [ok |-> FALSE, Tx |-> Tx]
                       ELSE CompileAll(Tail(prog), Compile(Head(prog), Tx))
Asts(prog) == [i \in DOMAIN prog |-> prog[i].s]
Shown(Tx) == IF Tx.sig = "ret" /\ Tx.hasrv THEN RvLine(Tx.rv) ELSE ""

Exp(out, rerr, perr, kind) == [out |-> out, rerr |-> rerr, perr |-> perr, kind |-> kind]   \* kind: "text" (out is pinned) | "pool" (the text of the pool, newline) | "file" (the text of the loaded file) | "any"

(* ------------------------------- actions ------------------------------ *)
\* each command as a function of the session
Type(q, c) ==
  IF ~Accepts(c, q.S) THEN [q EXCEPT !.last = Exp("", 0, 1, "text")]
  ELSE LET Tx == Exec(c.s, Fresh(Compile(c, q.S)))
           f == Flush(q.pend, Tx) IN
       [q EXCEPT !.S = Settled(Tx), !.pool = Append(@, c), !.pend = f.pend,
                 !.last = Exp(f.shown \o Shown(Tx), IF Tx.sig = "err" THEN 1 ELSE 0, 0, "text")]

Run(q) ==
  LET Tz == ExecList(Asts(q.pool), Fresh(q.S))
      Tx == IF Tz.sig \in {"brk", "cont"} THEN [Tz EXCEPT !.sig = ""] ELSE Tz
      f == Flush(q.pend, Tx) IN
  \* the error report of `run` ends its line: an empty line remains once the report is removed
  [q EXCEPT !.S = Settled(Tx), !.pend = f.pend,
            !.last = Exp(f.shown \o (IF Tx.sig = "err" THEN "\n" ELSE Shown(Tx)), IF Tx.sig = "err" THEN 1 ELSE 0, 0, "text")]

Clear(q) == [q EXCEPT !.S = State0, !.pool = <<>>, !.last = Exp("", 0, 0, "text")]
List(q) == [q EXCEPT !.last = Exp("", 0, 0, "pool")]
Save(q, f) == [q EXCEPT !.files[f] = [saved |-> TRUE, prog |-> q.pool], !.last = Exp("", 0, 0, "text")]
Load(q, f) ==
  IF ~q.files[f].saved THEN [q EXCEPT !.last = Exp("\n", 1, 0, "text")]
  ELSE LET r == CompileAll(q.files[f].prog, q.S) IN
       \* the echo is written to the context's stream and flushed: what was pending comes out in front of it
       IF r.ok THEN [q EXCEPT !.S = r.Tx, !.pool = @ \o q.files[f].prog, !.pend = "", !.last = Exp(q.pend, 0, 0, "file")]
       ELSE [q EXCEPT !.unk = TRUE, !.pend = "", !.last = Exp("", 0, 1, "any")]
Evaluate(q, c) ==
  IF ~Accepts(c, q.S) THEN [q EXCEPT !.last = Exp("\n", 1, 0, "text")]
  ELSE LET r == Eval(c.e, Fresh(q.S)) IN
       [q EXCEPT !.last = IF Failed(r.S) THEN Exp("\n", 1, 0, "text") ELSE Exp(RvLine(r.v), 0, 0, "text")]

Post(q, c) == CASE c.c = "stmt" -> Type(q, c) [] c.c = "expr" -> Evaluate(q, c) [] c.c = "run" -> Run(q) [] c.c = "clear" -> Clear(q)
                [] c.c = "list" -> List(q) [] c.c = "save" -> Save(q, c.f) [] c.c = "load" -> Load(q, c.f)
RECURSIVE Fold(_, _)
Fold(q, cs) == IF cs = <<>> THEN q ELSE Fold(Post(q, Head(cs)), Tail(cs))

Ctx0 == SetVar(State0, "$ARG", VTab(TStr, <<>>))
M0 == [S |-> Ctx0, pool |-> <<>>, files |-> [f \in Files |-> [saved |-> FALSE, prog |-> <<>>]], unk |-> FALSE, pend |-> "", last |-> Exp("", 0, 0, "text")]
Init == m = M0 /\ hist = <<>>
Next == ~m.unk /\ \E c \in CmdAlphabet : m' = Post(m, c) /\ hist' = Append(hist, c)
Spec == Init /\ [][Next]_cvars

(* ------------------------------ properties ---------------------------- *)
\* every statement of the pool (and of every file) is one the compiler accepted; the context is at rest between commands
\* nothing stays pending after a command whose last print completed
TypeOK == /\ \A i \in DOMAIN m.pool : m.pool[i] \in Stmts
          /\ \A f \in Files : \A i \in DOMAIN m.files[f].prog : m.files[f].prog[i] \in Stmts
          /\ m.S.sig = "" /\ m.S.out = ""
\* after `clear` nothing of the session is left but its files
ClearLeavesNothing == (hist # <<>> /\ hist[Len(hist)].c = "clear") => (m.pool = <<>> /\ DOMAIN m.S.vars = {} /\ m.S.funcs = <<>>)
\* the pool only grows, except by `clear`; a refused statement never enters it
PoolStep == [][\/ m'.pool = <<>> \/ (Len(m'.pool) >= Len(m.pool) /\ SubSeq(m'.pool, 1, Len(m.pool)) = m.pool)]_cvars
\* only `save f` writes file f
FileStep == [][\A f \in Files : m'.files[f] # m.files[f] => hist'[Len(hist')] = [c |-> "save", f |-> f]]_cvars
\* The names the context knows are exactly those the statements of the pool declare, in their order: whatever the history, the pool
\* (hence every saved file) compiles on its own in a new session.  This is what makes `save` useful: a saved session loads.
\* (in a NEW session, which has $ARG; TLC refutes the same statement for a session emptied by `clear`: `clear` removes $ARG too, and a
\*  saved file that reads $ARG is then refused by `load` -- MC_Cli_dev.cfg)
PoolSelfContained == ~m.unk => CompileAll(m.pool, Ctx0).ok
FilesSelfContained == \A f \in Files : CompileAll(m.files[f].prog, Ctx0).ok
LoadsAfterClear == ~m.unk => CompileAll(m.pool, State0).ok
\* a declared name is never lost while its declaring statement is in the pool
DeclaredCovers == ~m.unk => \A i \in DOMAIN m.pool : \A j \in DOMAIN m.pool[i].defs : m.pool[i].defs[j][1] \in DOMAIN m.S.vars
Bounded == Len(hist) <= (IF "MC_LEN" \in DOMAIN IOEnv THEN atoi(IOEnv.MC_LEN) ELSE 3)
=============================================================================
