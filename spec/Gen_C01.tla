------------------------------ MODULE Gen_C01 ------------------------------
(***************************************************************************)
(* Scenario generator for C01: texts over the whole vocabulary.            *)
(*  V: every built-in (arities 0..3), member and operator applied to       *)
(*     argument kinds of every type: the 7 typed nulls, the untyped null,  *)
(*     boundary integers, decimals incl. -0, 1e308, inf, nan, strings      *)
(*     (empty, numeric, junk, long), bytes incl. NUL, tables, tuples,      *)
(*     complex - directly and through an opaque route (user function       *)
(*     parameter) so that run-time checks behind the compile-time ones are *)
(*     reached.                                                            *)
(*  E: seed programs cut / with a token deleted, duplicated, swapped or    *)
(*     replaced at every token position; bytes of every lexer class        *)
(*     spliced at every position (done by the harness from the recipe).    *)
(* Every text goes through the library (batch and statement at a time) and *)
(* a sample through the bloc command.  The trace monitor accepts exactly   *)
(* the outcome alphabet {completed, parse error, runtime error}.           *)
(***************************************************************************)
EXTENDS BlocTokens, Json, IOUtils, SequencesExt
Env(n, d) == IF n \in DOMAIN IOEnv THEN IOEnv[n] ELSE d
Thorough == Env("VERIF_TIER", "quick") = "thorough"

Prelude == "VI = 1; VD = 2.5; VS = \"s\"; VB = true; VT = tab(2, 1); VU = tup(1, \"a\"); VNI = int(); VN = null; VR = raw(\"ab\"); VTT = tab(1, tab(1, 1)); VTU = tab(1, tup(1, \"a\")); VZ = raw(2, 0);\n"
           \o "function FO(X) return undefined is begin return X; end;\nNAN = sqrt(-1); INF = 1e308 * 10;"
Kinds == << "null", "bool()", "int()", "num()", "str()", "raw()", "tup()", "tab()",
            "0", "1", "(-1)", "255", "256", "4294967296", "9223372036854775807", "(-9223372036854775807-1)",
            "0.5", "(-0.5)", "0.999", "1e-9", "(-0.0)", "2.5", "1e308", "NAN", "INF", "(-INF)",
            "\"\"", "\"a\"", "\"12\"", "\"  12abc\"", "\"0x1F\"", "\"1e5\"", "\"aaaaaaaaaaaaaaaaaaaaaaaaaaaaaaaaaaaaaaaaaaaaaaaaaaaaaaaaaaaaaaaaaaaaaaaaaaaaaaaa\"",
            "true", "raw(\"ab\")", "VZ", "tab(1, 1)", "tab(0, 1)", "tab(2, \"a\")", "VTT", "VTU", "tup(1, \"a\")", "tup(2.5, true, raw())", "ii", "VT.at(0)", "VU@2" >>
Core == << "null", "int()", "num()", "str()", "0", "(-1)", "9223372036854775807", "(-9223372036854775807-1)", "2.5", "0.5", "(-0.5)", "NAN", "\"a\"", "\"\"", "raw(\"ab\")", "tab(1, 1)", "true", "FO(1)", "FO(\"s\")", "FO(null)" >>
F0 == << "null", "true", "false", "on", "off", "pi", "ee", "phi", "ii", "error", "random()", "bool()", "int()", "num()", "str()", "raw()", "tup()", "tab()" >>
F1 == << "abs", "acos", "asin", "atan", "b64dec", "b64enc", "bool", "ceil", "chr", "cos", "cosh", "exp", "floor", "getenv", "getsys", "hash", "hex", "iconj", "imag",
         "int", "iphase", "isnull", "isnum", "log10", "log", "lower", "ltrim", "num", "random", "raw", "round", "rtrim", "sign", "sin", "sinh", "sqrt",
         "strlen", "str", "tan", "tanh", "trim", "typeof", "upper", "tup" >>
F2 == << "atan2", "hash", "hex", "lsubstr", "max", "min", "mod", "pow", "raw", "round", "rsubstr", "strpos", "subraw", "substr", "tab", "tokenize", "tup" >>
F3 == << "clamp", "replace", "strpos", "subraw", "substr", "tokenize" >>
BinOps == << "+", "-", "*", "/", "%", "**", "power", "&", "|", "^", "<<", ">>", "==", "!=", "<>", "<", "<=", ">", ">=", "and", "or", "xor", "&&", "||", "matches" >>
UnOps  == << "-", "~", "!", "not ", "+" >>
Mem1 == << "at", "delete", "concat" >>
Mem2 == << "put", "insert", "delete" >>

Op(x) == "FO(" \o x \o ")"
Both(S) == S \cup {Op(x) : x \in S}
KS == {Kinds[j] : j \in DOMAIN Kinds}
CS == {Core[j] : j \in DOMAIN Core}
\* allocation sizes are bounded (property domain): no huge count for raw(n..) / tab(n, x)
HugeCount == {"4294967296", "9223372036854775807", "1e308", "INF", "NAN", "(-INF)", "FO(4294967296)", "FO(9223372036854775807)", "FO(1e308)", "FO(INF)", "FO(NAN)", "FO((-INF))"}
Alloc(e) == \E h \in HugeCount : e \in {"raw(" \o h \o ")", "tab(" \o h} \/ \E b \in CS : e \in {"raw(" \o h \o ", " \o b \o ")", "tab(" \o h \o ", " \o b \o ")"}
AllExprs ==
  {F0[f] : f \in DOMAIN F0}
  \cup {F1[f] \o "(" \o a \o ")" : f \in DOMAIN F1, a \in Both(KS)}
  \cup {F2[f] \o "(" \o a \o ", " \o b \o ")" : f \in DOMAIN F2, a \in KS, b \in CS}
  \cup {F2[f] \o "(" \o Op(a) \o ", " \o b \o ")" : f \in DOMAIN F2, a \in CS, b \in CS}
  \cup {F3[f] \o "(" \o a \o ", " \o b \o ", " \o c \o ")" : f \in DOMAIN F3, a \in CS, b \in CS, c \in CS}
  \cup {a \o " " \o BinOps[o] \o " " \o b : o \in DOMAIN BinOps, a \in KS, b \in KS}
  \cup {Op(a) \o " " \o BinOps[o] \o " " \o b : o \in DOMAIN BinOps, a \in CS, b \in CS}
  \cup {UnOps[o] \o a : o \in DOMAIN UnOps, a \in Both(KS)}
  \cup {"(" \o a \o ").count()" : a \in Both(KS)}
  \cup {"(" \o a \o ")." \o Mem1[m] \o "(" \o b \o ")" : m \in DOMAIN Mem1, a \in Both(KS), b \in CS \cup {"1", "2", "3"}}
  \cup {"(" \o a \o ")." \o Mem2[m] \o "(" \o b \o ", " \o c \o ")" : m \in DOMAIN Mem2, a \in KS, b \in {"0", "1", "2", "3", "(-1)", "int()", "null", "9223372036854775807", "2.5"}, c \in CS}
  \cup {"(" \o a \o ")@" \o r : a \in Both(KS), r \in {"0", "1", "2", "99", "4294967297", "99999999999999999999"}}
  \cup {"(" \o a \o ").set@" \o r \o "(" \o b \o ")" : a \in KS, r \in {"0", "1", "3", "99999999999999999999"}, b \in CS}
Exprs == {e \in AllExprs : ~Alloc(e)}
ExprSeq == SetToSeq(Exprs)
Chunk == 50

(* ------------------------------- edits -------------------------------- *)
Seeds == <<
  << Let("T", Call("tab", <<I(2), I(1)>>)), For("I", I(1), I(3), I(1), "asc", <<Forall("E", V("T"), "desc", <<Let("E", Bin("+", V("E"), V("I")))>>), If(Bin("==", V("I"), I(2)), <<Continue>>, <<Break>>)>>), PrintS(<<Mem(V("T"), "at", <<I(0)>>)>>) >>,
  << Func("F", <<"A", "B">>, <<Begin(<<Return(Bin("/", V("A"), V("B")))>>, <<When("DIVIDE_BY_ZERO", <<Return(I(0))>>), When("OTHERS", <<RaiseS("E2")>>)>>)>>), PrintS(<<UCall("F", <<I(4), I(0)>>), Str("x\"y")>>), Return(Item(Call("tup", <<I(1), Str("a")>>), 2)) >>,
  << Let("S", Str("abc")), For("K", I(1), I(2), NoExpr, "auto", <<Do(Mem(V("S"), "concat", <<Str("z")>>))>>), LetN("N", TDec), IfN(<<[c |-> Call("isnull", <<V("N")>>), b |-> <<PutS(<<V("S")>>)>>]>>, <<Nop>>), Do(SetAt(Call("tup", <<I(1), D(5)>>), 1, I(2))) >>,
  \* several functions, two of them redefined afterwards (the first-declared one and an overload), then every one called:
  \* statement at a time, an edit inside a redefinition is a rejected declaration followed by calls
  << Func("F", <<"A">>, <<Return(Bin("+", V("A"), I(1)))>>), Func("G", <<"A">>, <<Return(Bin("*", V("A"), I(2)))>>), Func("G", <<"A", "B">>, <<Return(Bin("-", V("A"), V("B")))>>),
     Func("F", <<"A">>, <<Return(Bin("+", V("A"), I(10)))>>), Func("G", <<"A">>, <<Return(Bin("*", V("A"), I(3)))>>),
     PrintS(<<UCall("F", <<I(1)>>)>>), PrintS(<<UCall("G", <<I(2)>>)>>), PrintS(<<UCall("G", <<I(5), I(3)>>)>>) >>
>>
Garbage == <<")", "end", "@", "loop", "\"", "0x", "function", ";", ".", "(", "**", "/*", "//", "#", "begin", "exception", "when", ":", ",", "99999999999999999999", "null", "$">>
Edits(tk) ==
  {SubSeq(tk, 1, k) : k \in 1..Len(tk)}
  \cup {SubSeq(tk, 1, k - 1) \o SubSeq(tk, k + 1, Len(tk)) : k \in 1..Len(tk)}
  \cup {SubSeq(tk, 1, k) \o <<tk[k]>> \o SubSeq(tk, k + 1, Len(tk)) : k \in 1..Len(tk)}
  \cup {SubSeq(tk, 1, k - 1) \o <<tk[k + 1], tk[k]>> \o SubSeq(tk, k + 2, Len(tk)) : k \in 1..(Len(tk) - 1)}
  \cup UNION {{SubSeq(tk, 1, k - 1) \o <<Garbage[g]>> \o SubSeq(tk, k + 1, Len(tk)) : g \in (IF Thorough THEN DOMAIN Garbage ELSE {1 + (k % Len(Garbage)), 1 + ((k * 7) % Len(Garbage))})} : k \in 1..Len(tk)}
EditTexts == UNION {{Text(e) : e \in Edits(Tokens(Seeds[s]))} : s \in DOMAIN Seeds}
EditSeq == SetToSeq(EditTexts)
\* the same edits inside ONE top-level statement, every statement on a line of its own: statement at a time, the
\* statements after the damaged one are still compiled and run (a rejected declaration followed by calls, ...)
LineTexts(seed) ==
  UNION {{Join([j \in DOMAIN seed |-> IF j = i THEN Text(e) ELSE Text(Tokens(<<seed[j]>>))], "\n") : e \in Edits(Tokens(<<seed[i]>>))} : i \in DOMAIN seed}
LineSeq == SetToSeq(UNION {LineTexts(Seeds[s]) : s \in DOMAIN Seeds})
SpliceBytes == <<0, 1, 9, 13, 27, 34, 35, 39, 47, 92, 127, 128, 195, 255>>

\* statements whose operand is evaluated while the text is COMPILED (the path of include / import), in a trusted context:
\* every way such an expression can fail or yield something that is no usable path
PathExprs == {"str(1 / 0)", "\"a\" + str(1 / 0)", "substr(\"abc\", 1 / 0)", "str(tab(1, 1).at(5))", "chr(300)", "str()", "\"\"", "\"/nonexistent/x\"", "\"/tmp\"",
              "str(raw(2, 65).at(9))", "FP()", "FN()", "str(int(\"x\"))", "\"a\".at(7)", "str(tup(1, \"a\")@2) + chr(0 - 1)", "b64enc(raw(3, 0))", "lower(str(null))", "NOSUCH()", "X"}
PathPrelude == "function FP() return string is begin raise NOPATH; end; function FN() return string is begin return str(); end; "
PathTexts == {PathPrelude \o kw \o " " \o e \o "; print 1;" : kw \in {"include", "import"}, e \in PathExprs}
             \cup {kw \o " " \o e \o ";" : kw \in {"include", "import"}, e \in PathExprs}
PathSeq == SetToSeq(PathTexts)
\* a table changed while it is being traversed: every mutation after (or inside) an inner loop over the same table, over another
\* table, or a block with a handler -- the lock of the outer traversal must still hold (the table is large enough to be moved by a growth)
NInner == <<"", "forall F in T loop nop; end loop;", "forall F in T loop break; end loop;", "forall F in T loop forall G in T loop nop; end loop; end loop;",
            "for K in 1 to 2 loop nop; end loop;", "forall F in U loop nop; end loop;", "begin forall F in T loop raise E1; end loop; exception when E1 then nop; end;",
            "while N < 0 loop nop; end loop;", "if N >= 0 then forall F in T loop nop; end loop; end if;">>
NMut == <<"T.concat(9);", "T.delete(0);", "T.insert(0, 9);", "T.put(0, 9);", "T = tab(1, 5);", "E = 7;", "T.concat(T);", "T.concat(U);", "U = T; U.concat(1);", "T.at(0);">>
NTexts == {"T = tab(40, 1); U = tab(3, 2); N = 0; forall E in T loop " \o NInner[i] \o " " \o NMut[m] \o " N = N + E; end loop; print N T.count();" : i \in DOMAIN NInner, m \in DOMAIN NMut}
          \cup {"T = tab(40, 1); U = tab(3, 2); N = 0; forall E in T loop forall F in T loop " \o NMut[m] \o " end loop; N = N + E; end loop; print N T.count();" : m \in DOMAIN NMut}
          \cup {"function FM(A) return undefined is begin forall E in A loop " \o NInner[i] \o " A.concat(9); N = E; end loop; return A.count(); end; T = tab(40, 1); U = T; N = 0; print FM(T);" : i \in DOMAIN NInner}
NSeq == SetToSeq(NTexts)
VARIABLE p
Init == p \in {[k |-> "V", c |-> c] : c \in 0..((Len(ExprSeq) - 1) \div Chunk)}
              \cup {[k |-> "N", c |-> c] : c \in 0..((Len(NSeq) - 1) \div 10)}
              \cup {[k |-> "P", j |-> j] : j \in DOMAIN PathSeq}
              \cup {[k |-> "E", c |-> c] : c \in 0..((Len(EditSeq) - 1) \div Chunk)}
              \cup {[k |-> "L", c |-> c] : c \in 0..((Len(LineSeq) - 1) \div Chunk)}
              \cup {[k |-> "B", s |-> s, b |-> b] : s \in DOMAIN Seeds, b \in DOMAIN SpliceBytes}
Next == UNCHANGED p
Lo(c) == c * Chunk + 1
Hi(c, n) == IF Lo(c) + Chunk - 1 > n THEN n ELSE Lo(c) + Chunk - 1
Scenario(q) ==
  CASE q.k = "V" ->
         [prop |-> "C01", key |-> "V",
          steps |-> <<[op |-> "exec", ctx |-> 0, free |-> TRUE, text |-> Prelude]>> \o
                    [j \in 1..(Hi(q.c, Len(ExprSeq)) - Lo(q.c) + 1) |-> [op |-> "expr", ctx |-> 0, text |-> ExprSeq[Lo(q.c) + j - 1]]]]
    [] q.k = "E" ->
         [prop |-> "C01", key |-> "E",
          steps |-> Flat([j \in 1..(Hi(q.c, Len(EditSeq)) - Lo(q.c) + 1) |->
                            << [op |-> "exec", ctx |-> 2 * j, free |-> TRUE, text |-> EditSeq[Lo(q.c) + j - 1]],
                               [op |-> "step", ctx |-> 2 * j + 1, free |-> TRUE, text |-> EditSeq[Lo(q.c) + j - 1]] >>])
                    \o (IF q.c % 8 = 0 THEN [j \in 1..(Hi(q.c, Len(EditSeq)) - Lo(q.c) + 1) |-> [op |-> "cli", mode |-> "file", free |-> TRUE, text |-> EditSeq[Lo(q.c) + j - 1], args |-> <<>>]] ELSE <<>>)]
    [] q.k = "L" ->
         [prop |-> "C01", key |-> "L",
          steps |-> [j \in 1..(Hi(q.c, Len(LineSeq)) - Lo(q.c) + 1) |-> [op |-> "step", ctx |-> j, free |-> TRUE, text |-> LineSeq[Lo(q.c) + j - 1]]]
                    \o (IF q.c % 8 = 0 THEN [j \in 1..(Hi(q.c, Len(LineSeq)) - Lo(q.c) + 1) |-> [op |-> "cli", mode |-> "inter", free |-> TRUE, text |-> LineSeq[Lo(q.c) + j - 1] \o "\n", args |-> <<>>]] ELSE <<>>)]
    [] q.k = "P" ->
         [prop |-> "C01", key |-> "P",
          steps |-> << [op |-> "new", ctx |-> 0, trusted |-> TRUE], [op |-> "exec", ctx |-> 0, free |-> TRUE, text |-> PathSeq[q.j]],
                       [op |-> "new", ctx |-> 1, trusted |-> TRUE], [op |-> "step", ctx |-> 1, free |-> TRUE, text |-> PathSeq[q.j]],
                       [op |-> "cli", mode |-> "file", free |-> TRUE, text |-> PathSeq[q.j], args |-> <<>>],
                       [op |-> "cli", mode |-> "inter", free |-> TRUE, text |-> PathSeq[q.j] \o "\n", args |-> <<>>] >>]
    [] q.k = "N" ->
         LET lo == q.c * 10 + 1  hi == IF lo + 9 > Len(NSeq) THEN Len(NSeq) ELSE lo + 9 IN
         [prop |-> "C01", key |-> "N",
          steps |-> Flat([j \in 1..(hi - lo + 1) |-> << [op |-> "exec", ctx |-> 2 * j, free |-> TRUE, text |-> NSeq[lo + j - 1]],
                                                      [op |-> "step", ctx |-> 2 * j + 1, free |-> TRUE, text |-> NSeq[lo + j - 1]] >>])]
    [] q.k = "B" ->
         LET t == Render(Seeds[q.s]) IN
         [prop |-> "C01", key |-> "B",
          steps |-> <<[op |-> "execsplice", ctx |-> 0, free |-> TRUE, text |-> t, byte |-> SpliceBytes[q.b], mode |-> "insert"],
                      [op |-> "execsplice", ctx |-> 0, free |-> TRUE, text |-> t, byte |-> SpliceBytes[q.b], mode |-> "replace"]>>]
Emit == PrintT("@@S " \o ToJson(Scenario(p)))
=============================================================================
