------------------------------ MODULE Gen_C16 ------------------------------
(* Scenario generator for C16: every history of BlocPlugin of length MaxLen, rendered as harness steps.   *)
EXTENDS BlocPlugin, Json

CtorText(m, form) == IF form = "default" THEN m \o "()" ELSE IF m = "csv" THEN "csv(\";\")" ELSE IF m = "utf8" THEN "utf8(\"ab\")" ELSE m \o "()"
StepOf(h) ==
  CASE h.a = "unban" -> <<[op |-> "unban", m |-> h.m, act |-> h]>>
    [] h.a = "clear" -> <<[op |-> "clearperm", act |-> h]>>
    [] h.a = "settrust" -> <<[op |-> "settrust", ctx |-> h.c, on |-> h.on, act |-> h]>>
    [] h.a = "clone" -> <<[op |-> "clone", ctx |-> h.c, from |-> h.from, act |-> h]>>
    [] h.a = "import" -> <<[op |-> "exec", ctx |-> h.c, text |-> "import " \o h.m \o ";", act |-> h], [op |-> "dump", ctx |-> h.c]>>
    [] h.a = "importpath" -> <<[op |-> "exec", ctx |-> h.c, text |-> "import \"@MOD:" \o h.m \o "@\";", act |-> h], [op |-> "dump", ctx |-> h.c]>>
    [] h.a = "include" -> <<[op |-> "exec", ctx |-> h.c, text |-> "include \"@INC@\";", act |-> h], [op |-> "dump", ctx |-> h.c]>>
    [] h.a = "decl" -> <<[op |-> "exec", ctx |-> h.c, text |-> "D" \o h.m \o ":" \o h.m \o ";", act |-> h], [op |-> "dump", ctx |-> h.c]>>
    [] h.a = "ctor" ->
         IF h.where = "top"
         THEN <<[op |-> "exec", ctx |-> h.c, text |-> "O" \o h.m \o " = " \o CtorText(h.m, h.form) \o ";", act |-> h], [op |-> "dump", ctx |-> h.c]>>
         ELSE <<[op |-> "exec", ctx |-> h.c, text |-> "function MK" \o h.m \o "() return object is begin return " \o CtorText(h.m, h.form) \o "; end;\nP" \o h.m \o " = MK" \o h.m \o "();", act |-> h],
                [op |-> "dump", ctx |-> h.c]>>
RECURSIVE StepsOf(_)
StepsOf(hs) == IF hs = <<>> THEN <<>> ELSE StepOf(Head(hs)) \o StepsOf(Tail(hs))
Scenario == [prop |-> "C16", key |-> "hist",
             steps |-> <<[op |-> "new", ctx |-> 0, trusted |-> TRUE], [op |-> "new", ctx |-> 1, trusted |-> FALSE]>> \o StepsOf(hist)]
Emit == Len(hist) < MaxLen + Len(Prefix) \/ PrintT("@@S " \o ToJson(Scenario))
=============================================================================
