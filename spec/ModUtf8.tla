------------------------------- MODULE ModUtf8 -------------------------------
(***************************************************************************)
(* An independent UTF-8 decoder (RFC 3629) over byte sequences, and the    *)
(* character-level operations of the utf8 module defined on its result:    *)
(* a decoded string is a sequence of characters, each the sequence of its  *)
(* 1..4 bytes.  (The module's at(i) returns the bytes of the character     *)
(* packed big-endian into an integer; insert takes the same form.)         *)
(***************************************************************************)
EXTENDS Integers, Sequences, FiniteSets, TLC

Cont(b) == b >= 128 /\ b <= 191
\* length of the well-formed character starting at position i of bs, or 0 if none (RFC 3629 section 4)
CharLen(bs, i) ==
  LET b0 == bs[i]
      B(k) == IF i + k <= Len(bs) THEN bs[i + k] ELSE 0
  IN  IF b0 <= 127 THEN 1
      ELSE IF b0 >= 194 /\ b0 <= 223 /\ Cont(B(1)) THEN 2
      ELSE IF b0 = 224 /\ B(1) >= 160 /\ B(1) <= 191 /\ Cont(B(2)) THEN 3
      ELSE IF ((b0 >= 225 /\ b0 <= 236) \/ b0 \in {238, 239}) /\ Cont(B(1)) /\ Cont(B(2)) THEN 3
      ELSE IF b0 = 237 /\ B(1) >= 128 /\ B(1) <= 159 /\ Cont(B(2)) THEN 3
      ELSE IF b0 = 240 /\ B(1) >= 144 /\ B(1) <= 191 /\ Cont(B(2)) /\ Cont(B(3)) THEN 4
      ELSE IF b0 >= 241 /\ b0 <= 243 /\ Cont(B(1)) /\ Cont(B(2)) /\ Cont(B(3)) THEN 4
      ELSE IF b0 = 244 /\ B(1) >= 128 /\ B(1) <= 143 /\ Cont(B(2)) /\ Cont(B(3)) THEN 4
      ELSE 0
RECURSIVE DecodeFrom(_, _, _)
DecodeFrom(bs, i, acc) ==       \* [ok, chars]: ok = FALSE as soon as an ill-formed byte is met
  IF i > Len(bs) THEN [ok |-> TRUE, chars |-> acc]
  ELSE LET n == CharLen(bs, i) IN
       IF n = 0 THEN [ok |-> FALSE, chars |-> acc] ELSE DecodeFrom(bs, i + n, Append(acc, SubSeq(bs, i, i + n - 1)))
Decode(bs) == DecodeFrom(bs, 1, <<>>)
Valid(bs) == Decode(bs).ok

Flatten(cs) == LET F[i \in 0..Len(cs)] == IF i = 0 THEN <<>> ELSE F[i - 1] \o cs[i] IN F[Len(cs)]
\* operations on a decoded string cs (positions are 0-based character positions)
Count(cs) == Len(cs)
RawSize(cs) == Len(Flatten(cs))
AtChar(cs, i) == cs[i + 1]                                       \* 0 <= i < Count
SubstrChars(cs, pos, n) == SubSeq(cs, pos + 1, IF pos + n > Len(cs) THEN Len(cs) ELSE pos + n)
InsertChar(cs, pos, c) == SubSeq(cs, 1, pos) \o <<c>> \o SubSeq(cs, pos + 1, Len(cs))     \* 0 <= pos <= Count
RemoveChars(cs, pos, n) == SubSeq(cs, 1, pos) \o SubSeq(cs, pos + 1 + (IF pos + n > Len(cs) THEN Len(cs) - pos ELSE n), Len(cs))
=============================================================================
