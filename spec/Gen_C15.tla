------------------------------ MODULE Gen_C15 ------------------------------
(***************************************************************************)
(* Behaviours of the C API handle machine (CApi.tla), rendered as harness  *)
(* steps.  Used two ways:                                                  *)
(*  - model checking (MC_C15.cfg): every reachable state within the        *)
(*    bounds satisfies the ownership invariants and can be closed;         *)
(*  - simulation (Gen_C15*.cfg): random walks through Pre/Post; the walk   *)
(*    first draws the kind of call, then its arguments, so that rare calls *)
(*    (run, eval, drop) are as frequent as the ones with many variants.    *)
(*    Each walk is emitted at several lengths, followed by the release of  *)
(*    everything the caller still owns.                                    *)
(***************************************************************************)
EXTENDS CApi, Json, IOUtils

VARIABLES m, hist, nw         \* nw: calls made after the seed
vars == <<m, hist, nw>>

EnvN(name, dflt) == IF name \in DOMAIN IOEnv THEN atoi(IOEnv[name]) ELSE dflt
MaxLen == EnvN("GEN_LEN", 16)
Cuts   == {MaxLen, MaxLen \div 2, MaxLen \div 4}

Lives(mm) == {c \in RangeOf(CtxNames) : Live(mm, c)}
LoadNames == {"X", "S", "R", "Y", "Q"}

Cand(mm, nm) ==
  LET cs == Lives(mm)
      fv == FirstFree(mm.val, ValH)   fl == FirstFree(mm.lib, LibH)
      fx == FirstFree(mm.exe, ExeH)   fe == FirstFree(mm.expr, ExprH)
  IN CASE nm = "ctx_clone"  -> {A("ctx_clone", "c1", "", "c0", "", 0)}
       [] nm = "ctx_free"   -> {A("ctx_free", "c1", "", "", "", 0)}
       [] nm \in {"ctx_purge", "purge_wm", "reset_stop", "break"} -> {A(nm, c, "", "", "", 0) : c \in cs}
       [] nm = "val_new"    -> {A("val_new", "", fv, "", "", k) : k \in DOMAIN ValPool}
       [] nm \in {"val_free", "val_null", "read_val"} -> {A(nm, "", h, "", "", 0) : h \in RangeOf(ValH)}
       [] nm = "val_setstr" -> {A(nm, "", h, "", "zz", 0) : h \in RangeOf(ValH)}
       [] nm = "store"      -> {A("store", c, h, "", n, 0) : c \in cs, h \in RangeOf(ValH), n \in RangeOf(ApiNames)}
       [] nm = "load"       -> {A("load", c, fl, "", n, 0) : c \in cs, n \in LoadNames}
       [] nm \in {"read_lib", "lib_null"} -> {A(nm, "", h, "", "", 0) : h \in RangeOf(LibH)}
       [] nm = "lib_setstr" -> {A(nm, "", h, "", "zz", 0) : h \in RangeOf(LibH)}
       [] nm = "parse_exec" -> {A("parse_exec", c, fx, "", "", p) : c \in cs, p \in DOMAIN Prog}
       \* (drawn separately so that valid texts, and texts declaring functions, follow the rejected ones often enough)
       [] nm = "parse_valid" -> {A("parse_exec", c, fx, "", "", p) : c \in cs, p \in {q \in DOMAIN Prog : ~Prog[q].bad}}
       [] nm = "parse_func" -> {A("parse_exec", c, fx, "", "", p) : c \in cs, p \in {q \in DOMAIN Prog : ~Prog[q].bad /\ \E j \in DOMAIN Prog[q].ast : Prog[q].ast[j].k = "func"}}
       [] nm = "run"        -> {A("run", mm.exe[h].c, h, "", "", 0) : h \in RangeOf(ExeH)}
       [] nm = "run2"       -> {A("run2", "c1", h, "", "", 0) : h \in RangeOf(ExeH)}
       [] nm \in {"exec_free"} -> {A(nm, "", h, "", "", 0) : h \in RangeOf(ExeH)}
       [] nm = "parse_expr" -> {A("parse_expr", c, fe, "", "", q) : c \in cs, q \in DOMAIN Expr}
       [] nm = "eval"       -> {A("eval", mm.expr[g].c, fl, g, "", 0) : g \in RangeOf(ExprH)}
       [] nm = "expr_free"  -> {A(nm, "", h, "", "", 0) : h \in RangeOf(ExprH)}
       [] nm = "drop"       -> {A("drop", c, fv, "", "", 0) : c \in cs}
       [] OTHER -> {}
ActNames == {"ctx_clone", "ctx_free", "ctx_purge", "purge_wm", "reset_stop", "break", "val_new", "val_free", "val_null",
             "read_val", "val_setstr", "store", "load", "read_lib", "lib_setstr", "lib_null", "parse_exec", "parse_valid", "parse_func", "run", "run2", "exec_free",
             "parse_expr", "eval", "expr_free", "drop"}
Acts(mm, nm) == {a \in Cand(mm, nm) : Pre(mm, a)}

\* release of everything the caller owns, executables/expressions/values first, contexts last
RECURSIVE FreeFam(_, _, _, _)
FreeFam(f, Hs, nm, j) == IF j > Len(Hs) THEN <<>>
                         ELSE (IF f[Hs[j]].st # "free" THEN <<A(nm, "", Hs[j], "", "", 0)>> ELSE <<>>) \o FreeFam(f, Hs, nm, j + 1)
Close(mm) == FreeFam(mm.exe, ExeH, "exec_free", 1) \o FreeFam(mm.expr, ExprH, "expr_free", 1) \o FreeFam(mm.val, ValH, "val_free", 1)
             \o (IF Live(mm, "c1") THEN <<A("ctx_free", "c1", "", "", "", 0)>> ELSE <<>>)
             \o (IF Live(mm, "c0") THEN <<A("ctx_free", "c0", "", "", "", 0)>> ELSE <<>>)
RECURSIVE Fold(_, _)
Fold(mm, as) == IF as = <<>> THEN mm ELSE Fold(Post(mm, Head(as)), Tail(as))

\* harness step of an action
StepOf(a) ==
  [op |-> "capi", a |-> a.a, c |-> a.c, h |-> a.h, g |-> a.g, n |-> a.n, p |-> a.p,
   text |-> IF a.a = "parse_exec" THEN ProgText(a.p) ELSE IF a.a = "parse_expr" THEN ExprText(a.p) ELSE "",
   kind |-> IF a.a = "val_new" THEN ValPool[a.p].kind ELSE "",
   iv |-> IF a.a = "val_new" THEN ValPool[a.p].iv ELSE 0,
   sv |-> IF a.a = "val_new" THEN ValPool[a.p].sv ELSE IF a.a \in {"val_setstr", "lib_setstr"} THEN a.n ELSE "",
   bv |-> IF a.a = "val_new" THEN ValPool[a.p].bv ELSE <<>>]
Scenario(h, mm) == [prop |-> "C15", key |-> "walk", nwalk |-> Len(h),
                    steps |-> <<StepOf(A("ctx_new", "c0", "", "", "", 0))>> \o [j \in 1..(Len(h) + Len(Close(mm))) |-> StepOf((h \o Close(mm))[j])]]

\* seeds: the host has stored an integer X and a string S, so that most texts compile
Seed1 == <<A("val_new", "", "v1", "", "", 1), A("store", "c0", "v1", "", "X", 0), A("val_free", "", "v1", "", "", 0),
           A("val_new", "", "v1", "", "", 5), A("store", "c0", "v1", "", "S", 0), A("val_free", "", "v1", "", "", 0)>>
Seed2 == Seed1 \o <<A("val_new", "", "v1", "", "", 7), A("store", "c0", "v1", "", "R", 0), A("val_free", "", "v1", "", "", 0),
                    A("parse_exec", "c0", "x1", "", "", 1)>>
Seed3 == Seed1 \o <<A("parse_exec", "c0", "x1", "", "", 13), A("parse_exec", "c0", "x2", "", "", 14)>>
\* F declared, a clone taken, F redeclared by a text compiled afterwards and run in the clone, a caller compiled in the clone
Seed4 == Seed1 \o <<A("parse_exec", "c0", "x1", "", "", 13), A("ctx_clone", "c1", "", "c0", "", 0), A("parse_exec", "c0", "x2", "", "", 20),
                    A("run2", "c1", "x2", "", "", 0), A("parse_expr", "c1", "e1", "", "", 11)>>
\* the host updates a string variable in place through the pointer bloc_ctx_load_variable gave it; a text reading S is compiled
Seed5 == Seed1 \o <<A("parse_exec", "c0", "x1", "", "", 12), A("load", "c0", "p1", "", "S", 0), A("lib_setstr", "", "p1", "", "zz", 0)>>
\* F declared twice (two bodies), then a text declaring another function is rejected; callers are compiled afterwards
Seed6 == Seed3 \o <<A("exec_free", "", "x2", "", "", 0), A("parse_exec", "c0", "x2", "", "", 31), A("parse_expr", "c0", "e1", "", "", 11)>>
Seed7 == Seed3 \o <<A("exec_free", "", "x2", "", "", 0), A("parse_exec", "c0", "x2", "", "", 31), A("parse_expr", "c0", "e1", "", "", 12)>>
\* a run that fails inside a handler, then texts that need a context at rest (a function declaration, a caller)
Seed8 == Seed1 \o <<A("parse_exec", "c0", "x1", "", "", 79), A("run", "c0", "x1", "", "", 0), A("parse_exec", "c0", "x2", "", "", 20)>>
Seed9 == Seed1 \o <<A("parse_exec", "c0", "x1", "", "", 80), A("run", "c0", "x1", "", "", 0), A("ctx_purge", "c0", "", "", "", 0), A("parse_exec", "c0", "x2", "", "", 13)>>
\* a text that re-types an existing variable several times is rejected (67) or only compiled (69); a text using the variable follows
Seed10 == Seed1 \o <<A("parse_exec", "c0", "x1", "", "", 67), A("parse_exec", "c0", "x1", "", "", 1), A("run", "c0", "x1", "", "", 0)>>
Seed11 == Seed1 \o <<A("parse_exec", "c0", "x1", "", "", 69), A("parse_exec", "c0", "x2", "", "", 1), A("run", "c0", "x2", "", "", 0)>>
Seeds == {<<>>, Seed1, Seed2, Seed3, Seed4, Seed5, Seed6, Seed7, Seed8, Seed9, Seed10, Seed11}

Init == \E s \in Seeds : hist = s /\ m = Fold(M0, s) /\ nw = 0
InitMC == \E s \in {<<>>, Seed2, Seed4} : hist = s /\ m = Fold(M0, s) /\ nw = 0

\* simulation step: draw the kind of call, then its arguments
\* weights of the kinds of call (calls that are always enabled would otherwise crowd out the rest)
Weighted == <<"ctx_clone", "ctx_clone", "ctx_free", "ctx_purge", "purge_wm", "reset_stop", "reset_stop", "break",
              "val_new", "val_new", "val_new", "val_free", "val_null", "read_val", "read_val", "val_setstr",
              "store", "store", "store", "load", "load", "load", "read_lib", "read_lib", "read_lib", "read_lib", "lib_setstr", "lib_setstr", "lib_setstr", "lib_null",
              "parse_exec", "parse_exec", "parse_exec", "parse_exec", "parse_valid", "parse_valid", "parse_valid", "parse_func", "parse_func", "run", "run", "run", "run", "run", "run",
              "run2", "run2", "run2", "run2", "exec_free", "parse_expr", "parse_expr", "parse_expr", "eval", "eval", "eval", "eval", "eval",
              "expr_free", "drop", "drop", "drop">>
\* (RandomElement is drawn once per bound variable: a LET definition would be re-evaluated at every use)
SimNext == /\ nw < MaxLen
           /\ \E en \in {{j \in DOMAIN Weighted : Acts(m, Weighted[j]) # {}}} :
                /\ en # {}
                /\ \E j \in {RandomElement(en)} : \E a \in {RandomElement(Acts(m, Weighted[j]))} :
                     m' = Post(m, a) /\ hist' = Append(hist, a) /\ nw' = nw + 1
SimSpec == Init /\ [][SimNext]_vars

\* exhaustive step (design-level checking)
Next == \E nm \in ActNames : \E a \in Acts(m, nm) : m' = Post(m, a) /\ hist' = Append(hist, a) /\ nw' = nw + 1
Spec == Init /\ [][Next]_vars
Bounded == nw <= EnvN("MC_LEN", 4)
View == m

Emit == nw \notin Cuts \/ PrintT("@@S " \o ToJson(Scenario(hist, m)))

\* exhaustive generation (thorough tier): every sequence of BFS_LEN calls from every seed
BfsLen == EnvN("BFS_LEN", 2)
BfsBound == nw <= BfsLen
EmitBfs == nw # BfsLen \/ PrintT("@@S " \o ToJson(Scenario(hist, m)))

\* every text of the pools once (deterministic part of the conformance run: nothing depends on what the walks happen to draw):
\* stored X, S and R; the text compiled -- twice, so that whatever the first attempt left behind meets the second --; run / evaluated
\* when it compiles; everything released
SeedAll == Seed1 \o <<A("val_new", "", "v1", "", "", 7), A("store", "c0", "v1", "", "R", 0), A("val_free", "", "v1", "", "", 0)>>
Try(mm, as) == LET F[j \in 0..Len(as)] == IF j = 0 THEN [mm |-> mm, h |-> <<>>]
                                           ELSE IF Pre(F[j - 1].mm, as[j]) THEN [mm |-> Post(F[j - 1].mm, as[j]), h |-> Append(F[j - 1].h, as[j])] ELSE F[j - 1]
                IN  F[Len(as)]
AllHist == {Try(Fold(M0, SeedAll), <<A("parse_exec", "c0", "x1", "", "", q), A("run", "c0", "x1", "", "", 0), A("parse_exec", "c0", "x2", "", "", q), A("run", "c0", "x2", "", "", 0),
                                        \* then texts that need a context at rest: a function declaration, a program using the stored variables
                                        A("exec_free", "", "x1", "", "", 0), A("parse_exec", "c0", "x1", "", "", 20), A("run", "c0", "x1", "", "", 0),
                                        A("exec_free", "", "x1", "", "", 0), A("parse_exec", "c0", "x1", "", "", 1), A("run", "c0", "x1", "", "", 0)>>) : q \in DOMAIN Prog}
           \cup {Try(Fold(M0, SeedAll), <<A("parse_expr", "c0", "e1", "", "", q), A("eval", "c0", "p1", "e1", "", 0), A("parse_expr", "c0", "e2", "", "", q),
                                           A("parse_exec", "c0", "x1", "", "", 20), A("run", "c0", "x1", "", "", 0), A("parse_exec", "c0", "x2", "", "", 1), A("run", "c0", "x2", "", "", 0)>>) : q \in DOMAIN Expr}
InitAll == \E r \in AllHist : hist = SeedAll \o r.h /\ m = r.mm /\ nw = 0
Stutter == UNCHANGED vars
EmitAll == PrintT("@@S " \o ToJson(Scenario(hist, m)))

(* design-level invariants *)
InvOwned == LibOwned(m) /\ RvOwned(m)
\* whatever happened, the documented release calls apply and leave nothing behind
InvClosable == LET cl == Close(m)
                   F[j \in 0..Len(cl)] == IF j = 0 THEN [mm |-> m, ok |-> TRUE]
                                          ELSE [mm |-> Post(F[j - 1].mm, cl[j]), ok |-> F[j - 1].ok /\ Pre(F[j - 1].mm, cl[j])]
               IN  F[Len(cl)].ok /\ Released(F[Len(cl)].mm)
\* no enabled call touches a dead context, a freed handle or a pointer whose guarantee ended
InvPreSound == \A nm \in ActNames : \A a \in Acts(m, nm) :
                  /\ (a.c # "" /\ a.a # "ctx_clone" => Live(m, a.c))
                  /\ (a.a = "read_lib" => m.lib[a.h].st = "valid" /\ Live(m, m.lib[a.h].c))
                  /\ (a.a \in {"run", "run2"} => m.exe[a.h].st = "ok" /\ m.ctx[m.exe[a.h].c].gen = m.exe[a.h].gen)
=============================================================================
