"""Shared plumbing for /verif/bin/check: build, TLC runs, harness replay, trace validation, evidence.

Glue only: it moves JSON between TLC and the harness, never judges. All verdicts come from TLC
evaluating the specification (lines starting with @@V printed by the trace specs, invariant
violations reported by TLC for the model-checking configs)."""
import json, os, re, shutil, subprocess, sys, time, hashlib

ROOT = os.path.dirname(os.path.dirname(os.path.abspath(__file__)))
SPEC = os.path.join(ROOT, 'spec')
CACHE = os.path.join(ROOT, '.cache')
REPO = os.environ.get('VERIF_REPO', '/repo')
JAVA_CP = '/opt/veriftools/tla/tla2tools.jar:/opt/veriftools/tla/CommunityModules-deps.jar'


class MachineryFailure(Exception):
    pass


def log(*a):
    print(*a, file=sys.stderr, flush=True)


def build(flavor='asan'):
    r = subprocess.run([os.path.join(ROOT, 'bin', 'build'), flavor], capture_output=True, text=True)
    if r.returncode != 0:
        raise MachineryFailure('build of %s (%s) failed:\n%s\n%s' % (REPO, flavor, r.stdout[-3000:], r.stderr[-3000:]))
    return os.path.join(CACHE, 'build-' + flavor)


def rundir(prop):
    d = os.path.join(CACHE, 'run', prop)
    shutil.rmtree(d, ignore_errors=True)
    os.makedirs(d, exist_ok=True)
    return d


import itertools
_META_SEQ = itertools.count()
_TLC_STATS = re.compile(r'(\d+) states generated, (\d+) distinct states found')


def tlc(module, cfg, workdir, env=None, workers=8, extra=None, timeout=1500, xmx='8g', deadlock=None, xss='64m'):
    """Run TLC on spec/<module>.tla with spec/<cfg>. Returns dict(out, generated, distinct, rc)."""
    meta = os.path.join(workdir, 'meta-%s-%d-%d' % (cfg.replace('.cfg', ''), int(time.time() * 1000) % 100000000, next(_META_SEQ)))
    cmd = ['java', '-XX:+UseParallelGC', '-Xmx' + xmx, '-Xss' + xss, '-cp', JAVA_CP, 'tlc2.TLC',
           '-workers', str(workers), '-metadir', meta, '-noGenerateSpecTE', '-config', cfg]
    if extra:
        cmd += extra
    cmd.append(module + '.tla')
    e = dict(os.environ)
    if env:
        e.update(env)
    t0 = time.time()
    try:
        r = subprocess.run(cmd, cwd=SPEC, env=e, capture_output=True, text=True, timeout=timeout)
    except subprocess.TimeoutExpired:
        raise MachineryFailure('TLC timed out on %s/%s after %ds' % (module, cfg, timeout))
    shutil.rmtree(meta, ignore_errors=True)
    out = r.stdout
    m = None
    for m in _TLC_STATS.finditer(out):
        pass
    res = {'out': out, 'rc': r.returncode, 'wall': time.time() - t0,
           'generated': int(m.group(1)) if m else 0, 'distinct': int(m.group(2)) if m else 0}
    return res


def tlc_ok(res, what):
    """TLC finished exploring without evaluation errors (rc 0). Anything else is a machinery failure
    unless the caller handles invariant violations (rc 12) itself."""
    if res['rc'] != 0:
        lines = [l for l in res['out'].splitlines() if not l.startswith('"@@')]
        errs = []
        for n, l in enumerate(lines):
            if l.startswith('Error:') or 'Exception' in l:
                errs += lines[n:n + 12]
        tail = '\n'.join(errs[:60]) if errs else '\n'.join(lines)[-3000:]
        raise MachineryFailure('TLC failed (%s), rc=%d:\n%s' % (what, res['rc'], tail))


def printed(res, tag):
    """Lines printed by the spec via PrintT("@@X " \\o json)."""
    pre = '"@@' + tag + ' '
    items = []
    for l in res['out'].splitlines():
        if l.startswith(pre):
            s = json.loads(l)          # TLA+ string literal escaping is JSON compatible
            items.append(json.loads(s[len(pre) - 1:]))
    return items


def _spec_digest(cfg, env, extra):
    h = hashlib.sha1()
    for f in sorted(os.listdir(SPEC)):
        if f.endswith('.tla') or f == cfg:
            h.update(f.encode()); h.update(open(os.path.join(SPEC, f), 'rb').read())
    h.update(json.dumps([cfg, sorted((env or {}).items()), extra or []]).encode())
    return h.hexdigest()


def generate(module, cfg, workdir, env=None, workers=1, extra=None, timeout=900):
    """Run a Gen_* spec; returns (scenarios, tlc result). The scenario set is a function of the specification,
    its configuration and the seed only (never of /repo), so it is cached by a digest of exactly those."""
    gdir = os.path.join(CACHE, 'gen')
    os.makedirs(gdir, exist_ok=True)
    key = os.path.join(gdir, '%s-%s.json' % (module, _spec_digest(cfg, env, extra)))
    if os.path.exists(key):
        try:
            c = json.load(open(key))
            return c['scenarios'], c['res']
        except Exception:
            pass
    res = tlc(module, cfg, workdir, env=env, workers=workers, extra=extra, timeout=timeout)
    if res['rc'] != 0 and 'simulate' not in ' '.join(extra or []):
        tlc_ok(res, 'generation ' + module)
    scs = printed(res, 'S')
    res = {k: v for k, v in res.items() if k != 'out'}
    res['out'] = ''
    if scs:
        tmp = key + '.%d.tmp' % os.getpid()
        json.dump({'scenarios': scs, 'res': res}, open(tmp, 'w'))
        os.replace(tmp, key)
        # keep the cache small: drop older generations of the same module
        for f in os.listdir(gdir):
            if f.startswith(module + '-') and os.path.join(gdir, f) != key and f.endswith('.json'):
                os.unlink(os.path.join(gdir, f))
    return scs, res


def dedupe(scs):
    seen, out = set(), []
    for s in scs:
        h = hashlib.sha1(json.dumps(s, sort_keys=True).encode()).hexdigest()
        if h not in seen:
            seen.add(h)
            out.append(s)
    return out


def number(scs, start=1):
    for n, s in enumerate(scs):
        s['id'] = start + n
    return scs


def replay(scs, workdir, flavor='asan', shards=16, harness='vdrive', batch=200, tmo=10, env=None, name='scn'):
    """Replay scenarios on the real code. Returns dict id -> observation record."""
    b = os.path.join(CACHE, 'build-' + flavor)
    exe = os.path.join(b, 'verif', harness)
    if not os.path.exists(exe):
        raise MachineryFailure('harness %s not built' % exe)
    shards = max(1, min(shards, (len(scs) + 49) // 50))
    procs = []
    e = dict(os.environ)
    e['ASAN_OPTIONS'] = 'detect_leaks=0:abort_on_error=0:halt_on_error=1:allocator_may_return_null=1'
    e['UBSAN_OPTIONS'] = 'print_stacktrace=1:halt_on_error=1'
    mods = os.path.join(b, 'modules')
    e['LD_LIBRARY_PATH'] = ':'.join([os.path.join(b, 'blocc'), os.path.join(b, 'verif')] +
                                    [os.path.join(mods, d) for d in sorted(os.listdir(mods)) if os.path.isdir(os.path.join(mods, d))])
    e['BLOC_MODULES'] = mods
    inc = os.path.join(workdir, 'inc.bloc')
    open(inc, 'w').write('INCLUDED = 1;\n')
    e['VDRIVE_INC'] = inc
    e['VDRIVE_WORK'] = workdir
    e['VDRIVE_BLOC'] = os.path.join(b, 'apps', 'bloc')
    if env:
        e.update(env)
    for k in range(shards):
        part = scs[k::shards]
        fi = os.path.join(workdir, '%s.%d.in' % (name, k))
        fo = os.path.join(workdir, '%s.%d.obs' % (name, k))
        with open(fi, 'w') as f:
            for s in part:
                slim = {'id': s['id'], 'steps': [{kk: vv for kk, vv in st.items() if kk != 'ast'} for st in s['steps']]}
                f.write(json.dumps(slim) + '\n')
        procs.append((subprocess.Popen([exe, fi, fo, str(batch), str(tmo)], env=e, stdout=subprocess.DEVNULL,
                                       stderr=subprocess.DEVNULL), fo, len(part)))
    obs = {}
    for p, fo, n in procs:
        try:
            p.wait(timeout=1500)
        except subprocess.TimeoutExpired:
            p.kill()
            raise MachineryFailure('harness timed out')
        if p.returncode != 0:
            raise MachineryFailure('harness exited with %s' % p.returncode)
        with open(fo) as f:
            for l in f:
                l = l.strip()
                if l:
                    o = json.loads(l)
                    obs[o['id']] = o
    missing = [s['id'] for s in scs if s['id'] not in obs]
    if missing:
        raise MachineryFailure('harness produced no record for scenarios %s' % missing[:5])
    return obs


def merge_trace(scs, obs, path):
    with open(path, 'w') as f:
        for s in scs:
            o = obs[s['id']]
            line = dict(s)
            line['obs'] = o.get('obs', [])
            line['end'] = o.get('end', 'ok')
            line['san'] = o.get('san', '')
            line['leak'] = o.get('leak', False)
            line['leakat'] = o.get('leakat', '')
            line['evend'] = o.get('evend', [])
            f.write(json.dumps(line) + '\n')


def validate(trace_module, cfg, trace_path, workdir, workers=8, env=None, timeout=1500):
    """Trace validation by TLC. Returns (verdict lines, tlc result).
    A large trace is validated in pieces (TLC holds the whole deserialized file in memory: ~50x its size)."""
    limit = 30 * 1000 * 1000
    parts = [trace_path]
    if os.path.getsize(trace_path) > limit:
        parts, cur, size = [], None, 0
        with open(trace_path) as f:
            for line in f:
                if cur is None or size + len(line) > limit:
                    if cur:
                        cur.close()
                    parts.append('%s.part%d' % (trace_path, len(parts)))
                    cur, size = open(parts[-1], 'w'), 0
                cur.write(line)
                size += len(line)
        if cur:
            cur.close()
    verdicts, total = [], None

    def one(part, nworkers):
        e = {'TRACE': part}
        if env:
            e.update(env)
        res = tlc(trace_module, cfg, workdir, env=e, workers=nworkers, timeout=timeout, xmx='12g')
        tlc_ok(res, 'trace validation ' + trace_module)
        if part != trace_path:
            os.unlink(part)
        return res

    if len(parts) == 1:
        results = [one(parts[0], workers)]
    else:
        # several pieces at a time (each TLC run holds its piece in memory: 3 x 12g)
        from concurrent.futures import ThreadPoolExecutor
        with ThreadPoolExecutor(max_workers=3) as ex:
            results = list(ex.map(lambda pt: one(pt, max(4, workers // 3)), parts))
    for res in results:
        verdicts += printed(res, 'V')
        if total is None:
            total = res
        else:
            for k in ('generated', 'distinct', 'wall'):
                total[k] += res[k]
    return verdicts, total


def load_known():
    p = os.path.join(ROOT, 'known_findings.json')
    if not os.path.exists(p):
        return {'findings': [], 'fixed': []}
    return json.load(open(p))


def write_evidence(prop, tier, seed, level, coverage, wall, violations, assumptions):
    os.makedirs(os.path.join(ROOT, 'evidence'), exist_ok=True)
    ev = {'property_id': prop, 'tier': tier, 'seed': seed, 'level': level, 'coverage': coverage,
          'assumptions': assumptions, 'wall_s': round(wall, 1), 'violations': violations}
    with open(os.path.join(ROOT, 'evidence', prop + '.json'), 'w') as f:
        json.dump(ev, f, indent=1)
    return ev
