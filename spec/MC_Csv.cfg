INIT Init
NEXT Next
CONSTANTS MaxFields = 2
          MaxLen = 2
INVARIANT RoundTrip
INVARIANT LineByLine
CHECK_DEADLOCK FALSE
