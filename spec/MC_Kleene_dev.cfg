SPECIFICATION Spec
CONSTANT Deviations = {"DevNullConstNotLvalue"}
INVARIANT ConstantsIntact
