INIT Init
NEXT Next
CONSTANT MaxLen = 3
INVARIANT FragInvariant
CHECK_DEADLOCK FALSE
