------------------------------ MODULE Gen_C14 ------------------------------
(***************************************************************************)
(* Scenario generator for C14.                                             *)
(*  S: a context is built, cloned once or twice; then every sequence of    *)
(*     <= H actions from {run a mutating program in context k, purge the   *)
(*     original, free the original, free a clone} with a dump of every     *)
(*     live context after each action: no action in one context may change *)
(*     another, clones keep working after the original is gone.            *)
(*  T: one compiled program (functions, recursion, tables, handled and     *)
(*     unhandled errors, random) run by 2, 4 and 8 clones on as many       *)
(*     threads, several times each (ThreadSanitizer build).                *)
(***************************************************************************)
EXTENDS Bloc, Json, IOUtils, SequencesExt
Env(n, d) == IF n \in DOMAIN IOEnv THEN IOEnv[n] ELSE d
H == atoi(Env("GEN_DEPTH", "3"))
Part == Env("GEN_PART", "S")

P1(s) == PrintS(<<Str(s)>>)
Base == << Let("A", I(1)), Let("T", Call("tab", <<I(2), I(1)>>)), Let("U", Call("tup", <<I(1), Str("a")>>)), Let("$S", I(5)),
           \* a body of several statements that prints (the call belongs to the context that makes it), overloads by arity,
           \* a function declared after the overloads
           Func("F", <<"X">>, <<Let("Y", Bin("+", V("X"), V("X"))), PutS(<<Str("f")>>), Return(V("Y"))>>), Func("G", <<>>, <<Return(I(7))>>),
           Func("G", <<"X">>, <<Let("Z", Bin("*", V("X"), I(3))), Return(V("Z"))>>), Func("G", <<"X", "Y">>, <<Return(Bin("-", V("X"), V("Y")))>>),
           Func("H", <<>>, <<PutS(<<Str("h")>>), Return(I(9))>>) >>
Muts == << <<Let("A", Bin("+", V("A"), I(1))), Do(Mem(V("T"), "concat", <<V("A")>>)), PrintS(<<UCall("F", <<V("A")>>), UCall("G", <<>>), UCall("G", <<I(2)>>), UCall("G", <<I(9), I(4)>>), UCall("H", <<>>)>>)>>,
           <<Func("F", <<"X">>, <<Return(Bin("*", V("X"), I(100)))>>), PrintS(<<UCall("F", <<I(2)>>)>>)>>,
           <<Do(SetAt(V("U"), 2, Str("z"))), Let("T", Call("tab", <<I(1), I(50)>>)), Let("NEW", I(9)), Func("G", <<>>, <<Return(I(8))>>)>>,
           <<Let("B", Bin("/", I(1), I(0)))>>,
           <<Forall("E", V("T"), "auto", <<Let("E", Bin("+", V("E"), I(10)))>>), PrintS(<<Mem(V("T"), "at", <<I(0)>>)>>)>> >>
\* actions: <<"run", ctx, m>> | <<"purge", 0>> | <<"free", ctx>>
\* "run2": a program compiled by the original (after the clones were taken) and run by a clone; only programs that use
\* names the clones already have (else the symbol tables do not line up)
Acts == {[a |-> "run", c |-> c, m |-> m] : c \in {0, 1, 2}, m \in DOMAIN Muts} \cup {[a |-> "purge", c |-> 0, m |-> 0], [a |-> "free", c |-> 0, m |-> 0], [a |-> "free", c |-> 1, m |-> 0]}
        \cup {[a |-> "run2", c |-> c, m |-> m] : c \in {1, 2}, m \in {1, 2}}
RECURSIVE Seqs(_)
Seqs(n) == IF n = 0 THEN {<<>>} ELSE {<<>>} \cup {Append(h, x) : h \in Seqs(n - 1), x \in Acts}
\* only sequences that do not use a freed context
RECURSIVE Valid(_, _)
Valid(h, live) == IF h = <<>> THEN TRUE
                  ELSE LET x == Head(h) IN
                       IF x.c \notin live \/ (x.a = "run2" /\ 0 \notin live) THEN FALSE
                       ELSE IF x.a = "purge" /\ (\E j \in DOMAIN Tail(h) : (Tail(h)[j].c = 0 /\ Tail(h)[j].a # "free") \/ Tail(h)[j].a = "run2") THEN FALSE    \* a purged context is only freed afterwards
                       ELSE Valid(Tail(h), IF x.a = "free" THEN live \ {x.c} ELSE live)
RECURSIVE Render_(_, _)
Render_(h, live) ==
  IF h = <<>> THEN SetToSeq({[op |-> "free", ctx |-> c] : c \in live})          \* finally everything is released
  ELSE LET x == Head(h)
           live2 == IF x.a = "free" THEN live \ {x.c} ELSE live
           act == IF x.a = "run" THEN <<[op |-> "exec", ctx |-> x.c, ast |-> Muts[x.m], text |-> Render(Muts[x.m])]>>
                  ELSE IF x.a = "run2" THEN <<[op |-> "exec", ctx |-> 0, runin |-> x.c, ast |-> Muts[x.m], text |-> Render(Muts[x.m])]>>
                  ELSE IF x.a = "purge" THEN <<[op |-> "purge", ctx |-> x.c]>> ELSE <<[op |-> "free", ctx |-> x.c]>>
           dumps == SetToSeq({[op |-> "dump", ctx |-> c] : c \in live2})
       IN  act \o dumps \o Render_(Tail(h), live2)
SScenario(h) ==
  [prop |-> "C14", key |-> "S",
   steps |-> << [op |-> "exec", ctx |-> 0, ast |-> Base, text |-> Render(Base)], [op |-> "clone", ctx |-> 1, from |-> 0], [op |-> "clone", ctx |-> 2, from |-> 1] >>
             \o Render_(h, {0, 1, 2})]

TProgs == <<
  << Func("FIB", <<"N">>, <<If(Bin("<", V("N"), I(2)), <<Return(V("N"))>>, <<>>), Return(Bin("+", UCall("FIB", <<Bin("-", V("N"), I(1))>>), UCall("FIB", <<Bin("-", V("N"), I(2))>>)))>>),
     Let("T", Call("tab", <<I(3), I(1)>>)), Let("S", I(0)),
     For("I", I(1), I(20), NoExpr, "auto", <<Let("S", Bin("+", V("S"), UCall("FIB", <<I(7)>>))), Do(Mem(V("T"), "put", <<I(0), V("S")>>))>>),
     Begin(<<Let("X", Bin("/", I(1), I(0)))>>, <<When("DIVIDE_BY_ZERO", <<Let("S", Bin("+", V("S"), I(1)))>>)>>),
     Let("R", Call("isnull", <<Call("random", <<I(10)>>)>>)),
     PrintS(<<V("S"), Str(" "), Mem(V("T"), "at", <<I(0)>>), Str(" "), V("R")>>) >>,
  << Let("W", Str("")), For("I", I(1), I(30), NoExpr, "auto", <<Do(Mem(V("W"), "concat", <<Str("ab")>>))>>), Forall("E", Call("tab", <<I(5), Str("q")>>), "auto", <<Let("W", Bin("+", V("W"), V("E")))>>),
     PrintS(<<Mem(V("W"), "count", <<>>)>>), Let("U", Call("tup", <<I(1), V("W")>>)), RaiseS("MYERR"), PrintS(<<Str("never")>>) >>,
  << Func("REC", <<"N">>, <<If(Bin("<=", V("N"), I(0)), <<Return(I(0))>>, <<>>), Return(Bin("+", I(1), UCall("REC", <<Bin("-", V("N"), I(1))>>)))>>),
     PrintS(<<UCall("REC", <<I(100)>>)>>), Begin(<<PrintS(<<UCall("REC", <<I(300)>>)>>)>>, <<>>), PrintS(<<Str("unreached")>>) >>,
  \* module objects shared by the clones (the object A exists before the clones are taken): every thread copies, stores,
  \* drops references to the same object and calls it
  << Let("B", V("A")), Let("T", Call("tab", <<I(3), V("A")>>)), Let("U", Call("tup", <<I(1), V("A")>>)), Let("B", NullC),
     For("I", I(1), I(20), NoExpr, "auto", <<Let("C", Mem(V("T"), "at", <<I(0)>>)), Let("T", Call("tab", <<I(2), V("C")>>)), Let("C", NullC)>>),
     PrintS(<<Mem(V("A"), "tag", <<>>), Mem(Mem(V("T"), "at", <<I(1)>>), "id", <<>>)>>), Let("T", NullC), Let("U", NullC) >>,
  \* handled errors of several kinds in a loop, each handler reading the error being handled (error@1, more than once)
  << Let("W", Str("")), Let("N", I(0)),
     For("I", I(1), I(40), NoExpr, "auto",
         <<Begin(<<If(Bin("==", Bin("%", V("I"), I(3)), I(0)), <<RaiseS("E_A")>>, <<>>), If(Bin("==", Bin("%", V("I"), I(3)), I(1)), <<RaiseS("E_B")>>, <<>>), Let("X", Bin("/", I(1), I(0)))>>,
                 <<When("E_A", <<Let("W", Bin("+", V("W"), Item(Call("error", <<>>), 1)))>>),
                   When("OTHERS", <<Let("W", Bin("+", V("W"), Item(Call("error", <<>>), 1))), Let("W", Bin("+", V("W"), Item(Call("error", <<>>), 1))), Let("N", Bin("+", V("N"), I(1)))>>)>>)>>),
     PrintS(<<Mem(V("W"), "count", <<>>), Str(" "), V("N")>>) >>
>>
ObjPrelude == <<Let("A", OCtor(I(1)))>>
TScenario(m, n, reps) ==
  [prop |-> "C14", key |-> "T",
   steps |-> (IF m = 4 THEN << [op |-> "new", ctx |-> 0, trusted |-> TRUE], [op |-> "exec", ctx |-> 0, free |-> TRUE, text |-> "import vobj;"],
                               [op |-> "new", ctx |-> 0, trusted |-> TRUE], [op |-> "exec", ctx |-> 0, ast |-> ObjPrelude, text |-> Render(ObjPrelude)] >> ELSE <<>>)
             \o <<[op |-> "threads", ctx |-> 0, n |-> n, reps |-> reps, ast |-> TProgs[m], text |-> Render(TProgs[m])]>>]

VARIABLE p
CScenario(n, reps) == [prop |-> "C14", key |-> "TC", steps |-> <<[op |-> "capithreads", ctx |-> 0, n |-> n, reps |-> reps]>>]
Init == IF Part = "S" THEN p \in {[k |-> "S", h |-> h] : h \in {x \in Seqs(H) : Valid(x, {0, 1, 2})}}
        ELSE p \in {[k |-> "T", m |-> m, n |-> n, r |-> r] : m \in DOMAIN TProgs, n \in {2, 4, 8}, r \in {1, 25}}
                 \cup {[k |-> "TC", m |-> 0, n |-> n, r |-> r] : n \in {2, 4, 8}, r \in {50, 2000}}
Next == UNCHANGED p
Emit == PrintT("@@S " \o ToJson(IF p.k = "S" THEN SScenario(p.h) ELSE IF p.k = "TC" THEN CScenario(p.n, p.r) ELSE TScenario(p.m, p.n, p.r)))
=============================================================================
