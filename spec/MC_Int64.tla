------------------------------ MODULE MC_Int64 ------------------------------
(***************************************************************************)
(* Model checking of the limb arithmetic (Int64.tla) at width 8 (LW = 4,   *)
(* NL = 2): for ALL 65 536 operand pairs every operator equals its         *)
(* mathematical definition from the manual, and the algebraic laws that    *)
(* tie them together hold.  The same operator definitions, instantiated at *)
(* LW = 8, NL = 8, are the 64-bit oracle of the C03 trace validation.      *)
(***************************************************************************)
EXTENDS Int64
CONSTANT Quick

W == Width
M == Pow2(W)
Wrap(x) == LET r == x % M IN IF r >= M \div 2 THEN r - M ELSE r          \* reduce modulo 2^W into the signed range
TruncDiv(x, y) == LET q == (IF x < 0 THEN -x ELSE x) \div (IF y < 0 THEN -y ELSE y) IN IF (x < 0) # (y < 0) THEN -q ELSE q
RECURSIVE IPowM(_, _)
IPowM(x, n) == IF n = 0 THEN 1 ELSE (x * IPowM(x, n - 1)) % M
U(a) == ToNat(a)                              \* unsigned value
WNat(w) == LET S[i \in 1..(2 * NL + 1)] == IF i = 2 * NL + 1 THEN 0 ELSE S[i + 1] * Base + w[i] IN S[1]
RECURSIVE BitsAnd(_, _, _)
BitsAnd(x, y, n) == IF n = 0 THEN 0 ELSE 2 * BitsAnd(x \div 2, y \div 2, n - 1) + (IF x % 2 = 1 /\ y % 2 = 1 THEN 1 ELSE 0)

VARIABLES a, b
Vals == [Idx -> 0..(Base - 1)]
\* all pairs are reached as successors of 256 initial states, so that TLC's workers share the work
BSet == IF Quick THEN {v \in Vals : ToNat(v) \in {0, 1, 2, 3, 7, 8, 15, 16, 17, 100, 126, 127, 128, 129, 130, 200, 248, 249, 253, 254, 255}} ELSE Vals
Init == a \in Vals /\ b = Zero
Next == b' \in BSet /\ a' = a

x == ToInt(a)
y == ToInt(b)
Arith ==
  /\ ToInt(Add(a, b)) = Wrap(x + y)
  /\ ToInt(Sub(a, b)) = Wrap(x - y)
  /\ ToInt(Mul(a, b)) = Wrap(x * y)
  /\ ToInt(Neg(a)) = Wrap(-x)
  /\ (y # 0 => ToInt(Div(a, b)) = Wrap(TruncDiv(x, y)))
  /\ (y # 0 => ToInt(Mod(a, b)) = x - y * TruncDiv(x, y))
  /\ (y # 0 => Add(Mul(Div(a, b), b), Mod(a, b)) = a)                       \* (a/b)*b + a%b = a, also MIN / -1
  /\ (y # 0 /\ ToInt(Mod(a, b)) # 0 => (ToInt(Mod(a, b)) < 0) = (x < 0))      \* sign of the remainder
  /\ Sub(a, b) = Add(a, Neg(b))
  /\ WNat(MulWide(a, b)) = U(a) * U(b)                                       \* exact double-width product
  \* the verification form of division accepts exactly the computed quotient and remainder
  /\ (y # 0 => DivModOk(a, b, Div(a, b), Mod(a, b)))
  /\ (y # 0 => \A dq \in {-1, 1} : ~DivModOk(a, b, Add(Div(a, b), FromInt(dq)), Mod(a, b)))
  /\ (y # 0 => \A dr \in {-1, 1} : ~DivModOk(a, b, Div(a, b), Add(Mod(a, b), FromInt(dr))))
Bits ==
  /\ U(And(a, b)) = BitsAnd(U(a), U(b), W)
  /\ U(Or(a, b)) = U(a) + U(b) - BitsAnd(U(a), U(b), W)
  /\ U(Xor(a, b)) = U(a) + U(b) - 2 * BitsAnd(U(a), U(b), W)
  /\ U(Not(a)) = M - 1 - U(a)
  /\ Not(And(a, b)) = Or(Not(a), Not(b))
  /\ Xor(a, b) = And(Or(a, b), Not(And(a, b)))
Shifts ==   \* displacement taken from b as a signed number: covers -128..127, beyond the width on both sides
  /\ U(Shl(a, y)) = (IF y >= W \/ y <= -W THEN 0 ELSE IF y >= 0 THEN (U(a) * Pow2(y)) % M ELSE U(a) \div Pow2(-y))
  /\ U(Shr(a, y)) = (IF y >= W \/ y <= -W THEN 0 ELSE IF y >= 0 THEN U(a) \div Pow2(y) ELSE (U(a) * Pow2(-y)) % M)
  /\ Shl(a, y) = Shr(a, -y)
Powers ==
  /\ (y >= 0 /\ y <= 20 => U(PowU(a, y)) = IPowM(U(a), y))
  /\ (y >= 0 /\ y <= 10 => PowU(a, y + 3) = Mul(PowU(a, y), PowU(a, 3)))
  /\ (y >= 0 /\ y <= 40 => PowL(a, b) = PowU(a, y))                          \* limb exponent = integer exponent
Order ==
  /\ (SCmp(a, b) = -1) = (x < y) /\ (SCmp(a, b) = 0) = (x = y) /\ (UCmp(a, b) = -1) = (U(a) < U(b))
  /\ FromInt(x) = a
=============================================================================
