SPECIFICATION Spec
CONSTANTS Modules = {"csv", "utf8"}
          Alphabet = "full"
          MaxLen = 4
INVARIANT Emit
CHECK_DEADLOCK FALSE
