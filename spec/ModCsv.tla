------------------------------- MODULE ModCsv -------------------------------
(***************************************************************************)
(* CSV records as the csv module handles them: a reference serialiser and  *)
(* a deserialiser written as the state machine a line-oriented reader      *)
(* needs (a quoted field may contain separators, quotes - doubled - and    *)
(* line breaks, so a record may span several lines and the reader says     *)
(* "need more").  TLC checks for all rows over the symbol alphabet that    *)
(*   RoundTrip      : Deser(Ser(row)) = row, record complete               *)
(*   LineByLine     : feeding Ser(row) one line at a time (each line with   *)
(*                    its line break) gives the same row, "need more"       *)
(*                    exactly until the last line                           *)
(* for every row with several fields or one non-empty field.               *)
(***************************************************************************)
EXTENDS Integers, Sequences, FiniteSets, TLC
CONSTANTS MaxFields, MaxLen
Sep == ","  Quote == "q"  LF == "n"  CR == "r"
Alphabet == {Sep, Quote, LF, CR, "x", " "}

NeedsQuote(f) == \E i \in DOMAIN f : f[i] \in {Sep, Quote, LF, CR}
Doubled(f) == LET F[i \in 0..Len(f)] == IF i = 0 THEN <<>> ELSE F[i - 1] \o (IF f[i] = Quote THEN <<Quote, Quote>> ELSE <<f[i]>>) IN F[Len(f)]
SerField(f) == IF NeedsQuote(f) THEN <<Quote>> \o Doubled(f) \o <<Quote>> ELSE f
Ser(row) == LET F[i \in 0..Len(row)] == IF i = 0 THEN <<>> ELSE IF i = 1 THEN SerField(row[1]) ELSE F[i - 1] \o <<Sep>> \o SerField(row[i]) IN F[Len(row)]

\* deserialiser state: [st, fields (completed), cur (field being read)]
\* st: "start" (at the beginning of a field), "plain", "quoted", "qq" (a quote seen inside a quoted field)
D0 == [st |-> "start", fields |-> <<>>, cur |-> <<>>]
Feed(d, c) ==
  CASE d.st = "start" -> IF c = Quote THEN [d EXCEPT !.st = "quoted"]
                         ELSE IF c = Sep THEN [d EXCEPT !.fields = Append(@, <<>>)]
                         ELSE [d EXCEPT !.st = "plain", !.cur = <<c>>]
    [] d.st = "plain" -> IF c = Sep THEN [st |-> "start", fields |-> Append(d.fields, d.cur), cur |-> <<>>] ELSE [d EXCEPT !.cur = Append(@, c)]
    [] d.st = "quoted" -> IF c = Quote THEN [d EXCEPT !.st = "qq"] ELSE [d EXCEPT !.cur = Append(@, c)]
    [] d.st = "qq" -> IF c = Quote THEN [d EXCEPT !.st = "quoted", !.cur = Append(@, Quote)]
                      ELSE IF c = Sep THEN [st |-> "start", fields |-> Append(d.fields, d.cur), cur |-> <<>>]
                      ELSE [d EXCEPT !.st = "plain", !.cur = Append(@, c)]
FeedAll(d, s) == LET F[i \in 0..Len(s)] == IF i = 0 THEN d ELSE Feed(F[i - 1], s[i]) IN F[Len(s)]
NeedMore(d) == d.st = "quoted"                          \* inside a quoted field at the end of the input so far
Finish(d) == Append(d.fields, d.cur)                    \* the record is complete: the last field ends here
Deser(s) == Finish(FeedAll(D0, s))

\* the text cut after every line break
RECURSIVE LinesOf(_)
LinesOf(s) == LET nl == {i \in DOMAIN s : s[i] = LF} IN
              IF nl = {} THEN (IF s = <<>> THEN <<>> ELSE <<s>>)
              ELSE LET k == CHOOSE i \in nl : \A j \in nl : i <= j IN <<SubSeq(s, 1, k)>> \o LinesOf(SubSeq(s, k + 1, Len(s)))

VARIABLE row
Fields == UNION {[1..n -> Alphabet] : n \in 0..MaxLen}
Init == row \in UNION {[1..n -> Fields] : n \in 1..MaxFields}
Next == UNCHANGED row
InDomain == Len(row) > 1 \/ row[1] # <<>>
RoundTrip == InDomain => Deser(Ser(row)) = row /\ ~NeedMore(FeedAll(D0, Ser(row)))
LineByLine ==
  InDomain =>
    LET ls == LinesOf(Ser(row))
        St[i \in 0..Len(ls)] == IF i = 0 THEN D0 ELSE FeedAll(St[i - 1], ls[i])
    IN  /\ Finish(St[Len(ls)]) = row
        /\ \A i \in 1..(Len(ls) - 1) : NeedMore(St[i])          \* an unfinished record asks for more
        /\ ~NeedMore(St[Len(ls)])
=============================================================================
