----------------------------- MODULE MC_Kleene -----------------------------
(***************************************************************************)
(* Design-level model for C04 (and the constant part of C05).              *)
(*  1. The ideal three-valued connectives of Bloc.tla obey Kleene's laws   *)
(*     (checked as ASSUMEs over the full 3x3 domain).                      *)
(*  2. Implementation-shaped layer: every producer of an operand (constant *)
(*     node, variable slot, temporary) is a storage cell with an LVALUE    *)
(*     (owned) flag; a binary operator writes its result into the first    *)
(*     operand cell that is NOT flagged, else into a fresh temporary       *)
(*     (macro LVAL2 of blocc/operator/op_*.cpp).  TLC explores all         *)
(*     sequences of evaluations and checks that constants and variables    *)
(*     never change and that every result is the Kleene result.            *)
(*     The named deviation DevNullConstNotLvalue (the `null` constant node *)
(*     is not flagged) makes TLC find the corruption of the literal.       *)
(***************************************************************************)
EXTENDS Bloc
CONSTANT Deviations

X3 == {"T", "F", "N"}
ASSUME \A x, y \in X3 : And3(x, y) = And3(y, x) /\ Or3(x, y) = Or3(y, x) /\ Xor3(x, y) = Xor3(y, x)
ASSUME \A x, y \in X3 : Not3(And3(x, y)) = Or3(Not3(x), Not3(y)) /\ Not3(Or3(x, y)) = And3(Not3(x), Not3(y))
ASSUME \A x \in X3 : Or3("N", "T") = "T" /\ And3("N", "F") = "F" /\ Not3(Not3(x)) = x
ASSUME \A x, y \in X3 : (x = "N" \/ y = "N") /\ ~(And3(x, y) = "F") => And3(x, y) = "N"
ASSUME \A x, y \in X3 : (x = "N" \/ y = "N") /\ ~(Or3(x, y) = "T") => Or3(x, y) = "N"
ASSUME \A x, y \in X3 : (x = "N" \/ y = "N") => Xor3(x, y) = "N"
ASSUME \A x, y \in X3 : x # "N" /\ y # "N" =>
          /\ And3(x, y) = (IF x = "T" /\ y = "T" THEN "T" ELSE "F")
          /\ Or3(x, y) = (IF x = "T" \/ y = "T" THEN "T" ELSE "F")
\* relational operators: null as soon as one operand is null, whatever the null's type
RelSamples == <<VInt(1), VBool(TRUE), VNull(TInt), VNil, VDec(3), VStr("a")>>
ASSUME \A op \in RelOps, ty \in {TUndef, TBool, TInt, TDec, TStr}, j \in DOMAIN RelSamples :
          /\ Rel(op, State0, VNull(ty), RelSamples[j]).v = VNull(TBool)
          /\ Rel(op, State0, RelSamples[j], VNull(ty)).v = VNull(TBool)

Consts == {"cT", "cF", "cN"}
Vars   == {"vA", "vB"}
Lit3(c) == IF c = "cT" THEN "T" ELSE IF c = "cF" THEN "F" ELSE "N"

VARIABLES cell,     \* storage cell -> [val, lv]
          vals,     \* what the script stored in the variables (ghost: the ideal store)
          tmp,      \* temporary produced by the previous operator (or "none")
          last      \* [got, want] of the last evaluation
vars == <<cell, vals, tmp, last>>

Owned(c) == IF c = "cN" /\ "DevNullConstNotLvalue" \in Deviations THEN FALSE ELSE TRUE

Init == /\ vals \in [Vars -> X3]
        /\ cell = [c \in Consts \cup Vars \cup {"t"} |->
                     IF c \in Consts THEN [val |-> Lit3(c), lv |-> Owned(c)]
                     ELSE IF c \in Vars THEN [val |-> vals[c], lv |-> TRUE]
                     ELSE [val |-> "N", lv |-> FALSE]]
        /\ tmp = "none" /\ last = [got |-> "N", want |-> "N"]

Op3(op, x, y) == IF op = "and" THEN And3(x, y) ELSE IF op = "or" THEN Or3(x, y) ELSE Xor3(x, y)

\* evaluate  a op b  where a, b are cells (a may be the temporary of the previous operator)
EvalOp(op, a, b) ==
  LET r == Op3(op, cell[a].val, cell[b].val)
      dst == IF ~cell[a].lv THEN a ELSE IF ~cell[b].lv THEN b ELSE "t"
  IN  /\ cell' = [cell EXCEPT ![dst].val = r]
      /\ last' = [got |-> r, want |-> Op3(op, cell[a].val, cell[b].val)]
      /\ tmp' = dst
      /\ UNCHANGED vals

Assign(v, src) ==   \* v = <value of cell src>  : values are copied into the slot
  /\ cell' = [cell EXCEPT ![v].val = cell[src].val]
  /\ vals' = [vals EXCEPT ![v] = cell[src].val]
  /\ UNCHANGED <<tmp, last>>

Next == \/ \E op \in {"and", "or", "xor"}, a \in Consts \cup Vars \cup {"t"}, b \in Consts \cup Vars : EvalOp(op, a, b)
        \/ \E v \in Vars, src \in Consts \cup Vars \cup {"t"} : Assign(v, src)

Spec == Init /\ [][Next]_vars

ConstantsIntact == \A c \in Consts : cell[c].val = Lit3(c)
VariablesIntact == \A v \in Vars : cell[v].val = vals[v]
ResultIsKleene  == last.got = last.want
=============================================================================
