------------------------------ MODULE Trace_C16 ------------------------------
(***************************************************************************)
(* Trace validation for C16: the recorded run of a history is replayed     *)
(* through the actions of BlocPlugin.  For every script statement the      *)
(* observed outcome (accepted / rejected) must be the one the action       *)
(* yields, and every dump must show exactly the objects the specification  *)
(* says the context holds; independently of any prediction, the property   *)
(* invariant is evaluated on the observed dump: an untrusted context holds *)
(* an object of a module only if that module was granted when a            *)
(* constructor of it was compiled there.                                   *)
(***************************************************************************)
EXTENDS Integers, Sequences, FiniteSets, TLC, Json, IOUtils
TraceFile == IF "TRACE" \in DOMAIN IOEnv THEN IOEnv.TRACE ELSE "trace.ndjson"
Scn == ndJsonDeserialize(TraceFile)
N == Len(Scn)
Modules == {"csv", "utf8"}
MaxLen == 1000
Alphabet == "full"

VARIABLES i, k, granted, loaded, ctx, hist
P == INSTANCE BlocPlugin
tvars == <<i, k, granted, loaded, ctx, hist>>

ObjMods(o) == {o.vars[j].val.modn : j \in {j \in DOMAIN o.vars : o.vars[j].val.t = "obj" /\ "modn" \in DOMAIN o.vars[j].val}}
Report(id, kk, why) == PrintT("@@V " \o ToJson([id |-> id, k |-> kk, why |-> why]))

\* the BlocPlugin action that corresponds to a recorded step
Act(st) ==
  LET h == st.act IN
  CASE h.a = "unban" -> P!Unban(h.m)
    [] h.a = "clear" -> P!ClearPermissions
    [] h.a = "deinit" -> P!Deinit
    [] h.a = "settrust" -> P!SetTrust(h.c, h.on)
    [] h.a = "clone" -> P!Clone(h.from, h.c)
    [] h.a = "import" -> P!ImportByName(h.c, h.m)
    [] h.a = "importpath" -> P!ImportByPath(h.c, h.m)
    [] h.a = "include" -> P!Include(h.c)
    [] h.a = "decl" -> P!Decl(h.c, h.m)
    [] h.a = "ctor" -> P!Ctor(h.c, h.m, h.where, IF "form" \in DOMAIN h THEN h.form ELSE "args")

Init == /\ i \in 1..N /\ k = 0 /\ P!Init

Next ==
  /\ k < Len(Scn[i].steps) /\ i' = i /\ k' = k + 1
  /\ LET sc == Scn[i]  st == sc.steps[k + 1] IN
     IF k + 1 > Len(sc.obs) THEN
          /\ Report(sc.id, k + 1, "no observation: " \o sc.end \o " " \o sc.san) /\ UNCHANGED <<granted, loaded, ctx, hist>>
     ELSE LET o == sc.obs[k + 1] IN
          IF "act" \in DOMAIN st THEN
               /\ Act(st)
               /\ LET h == hist'[Len(hist')] IN        \* the action as the specification took it (with its ok flag)
                  IF "ok" \in DOMAIN h /\ (o.oc = "ok") # h.ok
                  THEN Report(sc.id, k + 1, "the specification " \o (IF h.ok THEN "accepts" ELSE "rejects") \o " this statement, the library reported " \o o.oc)
                  ELSE IF h.a \in {"decl", "ctor"} /\ ~h.known /\ o.oc = "ok" THEN Report(sc.id, k + 1, "a module that is not loaded was usable")
                  ELSE IF "ok" \in DOMAIN h /\ ~h.ok /\ o.oc # "parse_error" THEN Report(sc.id, k + 1, "a refused statement must be a compile error, got " \o o.oc)
                  ELSE TRUE
          ELSE IF st.op = "dump" THEN
               /\ UNCHANGED <<granted, loaded, ctx, hist>>
               /\ IF ObjMods(o) # ctx[st.ctx].objs
                  THEN Report(sc.id, k + 1, "objects held by context " \o ToString(st.ctx) \o " differ from the specification")
                  ELSE IF ~ctx[st.ctx].trusted /\ \E m \in ObjMods(o) : ~P!GrantedAtCompile(st.ctx, m)
                  THEN Report(sc.id, k + 1, "an untrusted context holds an object of a module that was not granted at compile time")
                  ELSE TRUE
          ELSE UNCHANGED <<granted, loaded, ctx, hist>>
Spec == Init /\ [][Next]_tvars
=============================================================================
