-------------------------------- MODULE CApi --------------------------------
(***************************************************************************)
(* The C API (blocc/bloc_capi.h, docs/BLOC-C-API.md) as a state machine of *)
(* handles.  The state is what a caller has to keep in mind to use the API *)
(* correctly:                                                              *)
(*   ctx  - contexts: alive?, the ideal interpreter state (Bloc.tla), the  *)
(*          stop condition, the returned-value slot, the declared names    *)
(*   val  - caller-owned values (bloc_create_*, bloc_drop_returned): live, *)
(*          or moved (payload given to bloc_ctx_store_variable; only       *)
(*          bloc_free_value may follow)                                    *)
(*   lib  - library-owned value pointers (bloc_ctx_load_variable,          *)
(*          bloc_evaluate_expression): usable until the next call that     *)
(*          parses, runs, evaluates, registers a symbol or purges in the   *)
(*          same context                                                   *)
(*   exe  - executables, expr - expressions: bound to the context (and the *)
(*          symbol table generation) that parsed them                      *)
(*                                                                         *)
(* Every API call is one action.  Pre(m, a) is the documented precondition *)
(* (the caller's obligations), Post(m, a) the next state, Why(m, a, o) the *)
(* judgement of the recorded result o of that call ("" = allowed).  The    *)
(* generator (Gen_C15) walks Pre/Post; the trace specification (Trace_C15) *)
(* replays recorded calls through the same three operators.  What a script *)
(* does comes from the ideal layer (RunProgram / Eval of Bloc.tla).        *)
(***************************************************************************)
EXTENDS Bloc

CtxNames == <<"c0", "c1">>
ValH     == <<"v1", "v2", "v3">>
LibH     == <<"p1", "p2">>
ExeH     == <<"x1", "x2">>
ExprH    == <<"e1", "e2">>
RangeOf(s) == {s[j] : j \in DOMAIN s}

\* names the host stores through the API; every name has one type for the whole history (flow-insensitive
\* parse-time typing of BLOC is the subject of C04/C11, not of the API contract)
ApiNames == <<"X", "S", "R">>
NameType(n) == CASE n = "X" -> TInt [] n = "S" -> TStr [] n = "R" -> TRaw [] n = "Y" -> TInt [] n = "I" -> TInt [] OTHER -> TAny

(* ------------------------------ value pool ----------------------------- *)
VK(kind, iv, sv, bv) == [kind |-> kind, iv |-> iv, sv |-> sv, bv |-> bv]
ValPool == <<
  VK("int", 7, "", <<>>), VK("int", -3, "", <<>>), VK("dec", 5, "", <<>>), VK("bool", 1, "", <<>>),
  VK("str", 0, "ab", <<>>), VK("str", 0, "", <<>>), VK("raw", 0, "", <<1, 0, 255>>), VK("raw", 0, "", <<>>),
  VK("null_int", 0, "", <<>>), VK("null_str", 0, "", <<>>), VK("null_raw", 0, "", <<>>), VK("null_undef", 0, "", <<>>),
  VK("null_bool", 0, "", <<>>), VK("null_dec", 0, "", <<>>), VK("null_row", 0, "", <<>>), VK("str_from_null", 0, "", <<>>) >>
KindVal(k) ==
  LET r == ValPool[k] IN
  CASE r.kind = "int" -> VInt(r.iv) [] r.kind = "dec" -> VDec(r.iv) [] r.kind = "bool" -> VBool(r.iv = 1)
    [] r.kind = "str" -> VStr(r.sv) [] r.kind = "raw" -> VRaw(r.bv)
    [] r.kind = "null_int" -> VNull(TInt) [] r.kind = "null_str" -> VNull(TStr) [] r.kind = "null_raw" -> VNull(TRaw)
    [] r.kind = "null_bool" -> VNull(TBool) [] r.kind = "null_dec" -> VNull(TDec) [] r.kind = "null_row" -> VNull(TRow(<<>>))
    [] r.kind = "str_from_null" -> VNull(TStr)      \* bloc_create_literal(NULL)
    [] OTHER -> VNil

(* ----------------------------- program pool ---------------------------- *)
\* ast: the program (text = Render(ast)) or, for bad texts, text given literally; needs: names that must be
\* declared for the text to compile; decl: names the text declares; errnos: allowed bloc_errno of a rejection
PG(ast, needs, decl) == [ast |-> ast, text |-> "", needs |-> needs, decl |-> decl, bad |-> FALSE, errnos |-> {2}, norun |-> FALSE]
\* a valid text that is only ever compiled (running it would change the type of an API-stored name)
PGN(ast, needs, decl) == [PG(ast, needs, decl) EXCEPT !.norun = TRUE]
BadText(text, errnos) == [ast |-> <<>>, text |-> text, needs |-> {}, decl |-> {}, bad |-> TRUE, errnos |-> errnos, norun |-> FALSE]
\* a rejected text that mentions API-stored names before its error (they may stay declared)
BadTextD(text, decl) == [BadText(text, {}) EXCEPT !.decl = decl]
Prog == <<
  PG(<<Let("Y", Bin("+", V("X"), I(1))), PrintS(<<V("Y")>>), Return(V("Y"))>>, {"X"}, {"Y"}),
  PG(<<Let("S", Bin("+", V("S"), Str("a"))), PrintS(<<V("S")>>)>>, {"S"}, {}),
  PG(<<PrintS(<<Str("pre")>>), Let("X", Bin("/", V("X"), I(0))), PrintS(<<Str("post")>>)>>, {"X"}, {}),
  PG(<<Return(Call("tab", <<I(2), V("X")>>))>>, {"X"}, {}),
  PG(<<PrintS(<<Str("r")>>), RaiseS("OOPS")>>, {}, {}),
  BadText("X = ;", {}),
  PG(<<For("I", I(1), I(3), NoExpr, "asc", <<Let("X", Bin("+", V("X"), V("I")))>>), PrintS(<<V("X")>>)>>, {"X"}, {"I"}),
  PG(<<Return(Call("tup", <<V("X"), V("S")>>))>>, {"X", "S"}, {}),
  BadText("Z = 1 +", {0}),
  PG(<<PrintS(<<V("Q")>>)>>, {"Q"}, {}),
  PG(<<Return(NullC)>>, {}, {}),
  PG(<<Begin(<<Let("X", Bin("/", V("X"), I(0)))>>, <<When("DIVIDE_BY_ZERO", <<PrintS(<<Str("caught")>>)>>)>>), Return(V("S"))>>, {"X", "S"}, {}),
  PG(<<Func("F", <<"A">>, <<Return(Bin("*", V("A"), I(2)))>>), Let("Y", UCall("F", <<V("X")>>)), PrintS(<<V("Y")>>)>>, {"X"}, {"Y", "F()"}),
  PG(<<Func("F", <<"A">>, <<Return(Bin("*", V("A"), I(3)))>>), Let("Y", UCall("F", <<Bin("/", V("X"), I(0))>>)), PrintS(<<V("Y")>>)>>, {"X"}, {"Y", "F()"}),
  PG(<<Let("X", I(5)), Let("S", Str("made")), PrintS(<<V("S"), V("X")>>)>>, {}, {"X", "S"}),
  PG(<<Return(V("R"))>>, {"R"}, {}),
  BadText("begin print 1;", {0}),
  BadText("print );", {}),
  PG(<<If(Bin(">", V("X"), I(0)), <<Return(V("X"))>>, <<>>), PrintS(<<Str("no")>>)>>, {"X"}, {}),
  PG(<<Func("F", <<"A">>, <<Return(Bin("+", V("A"), I(100)))>>)>>, {}, {"F()"}),
  PG(<<PrintS(<<UCall("F", <<I(1)>>)>>), Return(UCall("F", <<V("X")>>))>>, {"X", "F()"}, {}),
  \* texts that fail after part of the tree has been built (what the parser must release on the way out)
  BadText("Z = tab(2, 1 +;", {}),
  BadText("print 1 + (2 * ;", {}),
  BadText("Z = abs(1, 2);", {}),
  BadText("Z = \"abc\".foo();", {}),
  BadText("Z = \"abc\".at(1, 2, 3);", {}),
  BadText("if true then print 1; els", {}),
  BadText("while true loop print 1; end", {}),
  BadText("for J in 1 to loop end loop;", {}),
  BadText("function G(A return integer is begin return 1; end;", {}),
  BadText("function G(A) return integer is begin return 1 +; end;", {}),
  BadText("begin print 1; exception when then print 2; end;", {}),
  BadText("Z = str(1, 2, 3, 4);", {}),
  BadText("print 1; print 2; Z = ;", {}),
  BadText("Z = (1 + 2;", {}),
  BadText("import nosuchmodule;", {}),
  BadText("Z = isnull();", {}),
  BadText("Z = raw(3, 65).at(;", {}),
  BadText("W = tab(2, 0); W.put(0);", {}),
  BadText("return 1 +;", {}),
  BadText("Z = -;", {}),
  BadText("begin Z = 1; exception when others then Z = ; end;", {}),
  BadText("if true then for J in 1 to 2 loop print J; end loop; print ); end if;", {}),
  \* the error inside the body of every construct (what was opened must be closed again)
  BadText("while true loop print ); end loop;", {}), BadText("for J in 1 to 2 loop print ); end loop;", {}), BadText("forall J in tab(1, 1) loop print ); end loop;", {}),
  BadText("if true then print ); end if;", {}), BadText("if false then print 1; else print ); end if;", {}), BadText("begin print ); end;", {}),
  BadText("begin print 1; exception when others then print ); end;", {}),
  BadText("function G(A) return integer is begin while true loop print ); end loop; return 1; end;", {}),
  BadText("while true loop ; end loop;", {}), BadText("for J in 1 to 2 loop end loop;", {}),
  \* type errors found after part of the expression tree was built
  BadText("Z = \"x\" * 2;", {}), BadText("Z = 2 - \"x\";", {}), BadText("Z = true + 1;", {}), BadText("Z = -\"x\";", {}), BadText("Z = 1 + tab(1, 1) * \"s\";", {}),
  BadText("Z = (1 + 2) * \"s\" + 3;", {}), BadText("Z = 1 < \"s\";", {}), BadText("Z = not 5;", {}), BadText("Z = \"s\" and true;", {}), BadText("Z = 2 ** \"s\";", {}),
  BadText("Z = \"x\"; W = Z * 2;", {}), BadText("print abs(\"s\") 1;", {}), BadText("print substr(1, 2) 3;", {}),
  \* an existing name re-typed several times by a text that is then rejected / only compiled: its type is what it was
  BadTextD("X = \"x\"; X = 1.5; Z = ;", {"X"}), BadTextD("S = 1; S = tab(1, 1); S = 2.5; Z = ;", {"S"}),
  PGN(<<Let("X", Str("x")), Let("X", D(3)), Let("X", Call("tab", <<I(1), I(1)>>))>>, {"X"}, {}),
  PGN(<<Let("S", I(1)), Let("S", D(5)), Let("S", Str("back"))>>, {"S"}, {}),
  \* the error in the second or a later link of a member chain (the links already built must be released, once)
  BadText("Z = \"abc\".concat(\"d\").foo();", {}), BadText("W = tab(2, 0); Z = W.at(0).foo();", {}), BadText("W = tab(2, tab(1, 1)); W.at(0).concat(\"y\");", {}),
  BadText("Z = \"abc\".concat(\"d\").at(1, 2);", {}), BadText("Z = \"abc\".concat(\"d\")@1;", {}), BadText("W = tab(2, tab(1, 1)); W.at(0).at(0).at(0);", {}),
  BadText("Z = tup(1, \"a\")@2.concat(\"b\").concat(;", {}), BadText("W = tab(2, 0); print W.count().foo();", {}),
  \* (79, 80) a handler that itself raises: the run fails, and the context is as usable afterwards as after any failing run
  PG(<<Begin(<<RaiseS("E1")>>, <<When("E1", <<PrintS(<<Str("h")>>), RaiseS("BANG")>>)>>), PrintS(<<Str("never")>>)>>, {}, {}),
  PG(<<For("I", I(1), I(2), NoExpr, "asc", <<Begin(<<Let("X", Bin("/", V("X"), I(0)))>>, <<When("OTHERS", <<RaiseS("AGAIN")>>)>>)>>), PrintS(<<Str("never")>>)>>, {"X"}, {"I"})
>>
FuncNames == {"F()", "G()"}
ProgText(p) == IF Prog[p].bad THEN Prog[p].text ELSE Render(Prog[p].ast)

\* expressions: e (rendered with a terminating newline) or literal text; sty: static type the API reports
XP(e, needs, maj, nd) == [e |-> e, text |-> "", needs |-> needs, bad |-> FALSE, errnos |-> {2}, maj |-> maj, nd |-> nd]
BadX(text, errnos) == [e |-> NoExpr, text |-> text, needs |-> {}, bad |-> TRUE, errnos |-> errnos, maj |-> -1, nd |-> 0]
Expr == <<
  XP(Bin("+", V("X"), I(1)), {"X"}, 2, 0),
  XP(Call("tab", <<I(2), V("S")>>), {"S"}, 4, 1),
  XP(Bin("/", I(1), Bin("-", V("X"), V("X"))), {"X"}, 2, 0),
  BadX("1 +\n", {}),
  BadX("2 * 3", {0}),                       \* not terminated: end of text inside the expression
  XP(Call("tup", <<V("X"), V("S"), D(5)>>), {"X", "S"}, 7, 0),
  XP(V("S"), {"S"}, 4, 0),
  XP(V("R"), {"R"}, 6, 0),
  XP(Bin("+", Str("k"), Str("l")), {}, 4, 0),
  XP(V("Q"), {"Q"}, -1, 0),
  XP(UCall("F", <<V("X")>>), {"X", "F()"}, -1, 0),
  XP(UCall("G", <<I(1)>>), {"G()"}, -1, 0),                  \* G is only ever mentioned by rejected texts
  BadX("abs(1, 2)\n", {}),
  BadX("\"abc\".foo()\n", {}),
  BadX("tab(2, 1 +\n", {}),
  BadX("(1 + 2\n", {}),
  BadX("1 + * 2\n", {}),
  BadX("str(\n", {}),
  BadX("\"abc\".concat(\"d\").foo()\n", {}), BadX("\"abc\".concat(\"d\").at(1, 2)\n", {}), BadX("tab(2, tab(1, 1)).at(0).concat(\"y\")\n", {})
>>
ExprText(q) == IF Expr[q].bad THEN Expr[q].text ELSE RMin(Expr[q].e) \o "\n"

(* --------------------------------- state ------------------------------- *)
DeadCtx == [alive |-> FALSE, S |-> State0, stop |-> FALSE, hasrv |-> FALSE, rv |-> VNil, decl |-> {}, maybe |-> {}, gen |-> 0, par |-> {}, base |-> {}, pgen |-> 0]
NewCtx(g) == [DeadCtx EXCEPT !.alive = TRUE, !.gen = g]
M0 == [ctx  |-> [c \in RangeOf(CtxNames) |-> IF c = "c0" THEN NewCtx(1) ELSE DeadCtx],
       val  |-> [h \in RangeOf(ValH)  |-> [st |-> "free", v |-> VNil]],
       lib  |-> [h \in RangeOf(LibH)  |-> [st |-> "free", c |-> "", n |-> "", v |-> VNil]],
       exe  |-> [h \in RangeOf(ExeH)  |-> [st |-> "free", c |-> "", p |-> 0, gen |-> 0]],
       expr |-> [h \in RangeOf(ExprH) |-> [st |-> "free", c |-> "", q |-> 0, gen |-> 0]],
       ngen |-> 1]

\* uniform action record
A(a, c, h, g, n, p) == [a |-> a, c |-> c, h |-> h, g |-> g, n |-> n, p |-> p]

\* the first free handle of a family (handles are interchangeable: symmetry cut)
FirstFree(f, Hs) == LET fr == {j \in DOMAIN Hs : f[Hs[j]].st = "free"} IN
                    IF fr = {} THEN "" ELSE Hs[CHOOSE j \in fr : \A k \in fr : j <= k]

\* a call that parses, runs, evaluates, registers a symbol or purges in context c ends the guarantee on
\* every library-owned pointer obtained from c
Invalidate(m, c) == [m EXCEPT !.lib = [h \in DOMAIN @ |-> IF @[h].c = c THEN [st |-> "free", c |-> "", n |-> "", v |-> VNil] ELSE @[h]]]

SettleC(S) == [S EXCEPT !.sig = "", !.err = NoErr, !.out = "", !.rv = VNil, !.hasrv = FALSE, !.cerr = NoErr, !.depth = 0, !.inloop = 0, !.locked = {}, !.itype = NoFrame]

Live(m, c) == c \in DOMAIN m.ctx /\ m.ctx[c].alive
\* an executable / expression may be used while the symbol table it was compiled against exists
ExeUsable(m, h)  == m.exe[h].st = "ok" /\ Live(m, m.exe[h].c) /\ m.ctx[m.exe[h].c].gen = m.exe[h].gen
ExprUsable(m, h) == m.expr[h].st = "ok" /\ Live(m, m.expr[h].c) /\ m.ctx[m.expr[h].c].gen = m.expr[h].gen

ParseOk(cx, p) == ~Prog[p].bad /\ Prog[p].needs \subseteq cx.decl
XParseOk(cx, q) == ~Expr[q].bad /\ Expr[q].needs \subseteq cx.decl

\* moved or copied into the symbol: the caller's value keeps an unspecified content and may only be freed
StoreFits(n, v) == LET ty == TypeOf(v) IN ty.m = NameType(n).m /\ ty.l = NameType(n).l

(* a run in context record cx of program p: new context record and the promised result *)
RunOn(cx, p) ==
  IF cx.stop THEN [cx |-> cx, ret |-> TRUE, err |-> NoErr, out |-> ""]        \* the stop condition is held: nothing runs
  ELSE LET S1 == RunProgram(Prog[p].ast, cx.S)
           isret == S1.sig = "ret" IN
       [cx |-> [cx EXCEPT !.S = SettleC(S1), !.stop = isret,
                          !.hasrv = IF isret /\ S1.hasrv THEN TRUE ELSE @,
                          !.rv = IF isret /\ S1.hasrv THEN S1.rv ELSE @],
        ret |-> S1.sig # "err", err |-> S1.err, out |-> S1.out]

(* ------------------------------ preconditions -------------------------- *)
Pre(m, a) ==
  CASE a.a = "ctx_clone" -> a.c = "c1" /\ a.g = "c0" /\ Live(m, "c0") /\ ~Live(m, "c1")
    [] a.a = "ctx_free"  -> Live(m, a.c)
    [] a.a \in {"ctx_purge", "purge_wm", "reset_stop", "break"} -> Live(m, a.c)
    [] a.a = "val_new"   -> a.h \in DOMAIN m.val /\ m.val[a.h].st = "free" /\ a.p \in DOMAIN ValPool
    [] a.a = "val_free"  -> a.h \in DOMAIN m.val /\ m.val[a.h].st # "free"
    [] a.a \in {"val_null", "read_val"} -> a.h \in DOMAIN m.val /\ m.val[a.h].st = "live"
    [] a.a = "val_setstr" -> a.h \in DOMAIN m.val /\ m.val[a.h].st = "live"
    [] a.a = "store"     -> Live(m, a.c) /\ a.h \in DOMAIN m.val /\ m.val[a.h].st = "live" /\ StoreFits(a.n, m.val[a.h].v)
    [] a.a = "load"      -> Live(m, a.c) /\ a.h \in DOMAIN m.lib /\ m.lib[a.h].st = "free"
    [] a.a = "read_lib"  -> a.h \in DOMAIN m.lib /\ m.lib[a.h].st = "valid"
    \* assignment through the pointer bloc_ctx_load_variable returned: the host updates the variable in place
    [] a.a \in {"lib_setstr", "lib_null"} -> a.h \in DOMAIN m.lib /\ m.lib[a.h].st = "valid" /\ m.lib[a.h].n # ""
                                            /\ m.lib[a.h].n \in DOMAIN m.ctx[m.lib[a.h].c].S.vars
                                            /\ (a.a = "lib_setstr" => TypeOf(m.lib[a.h].v).m = "str" /\ TypeOf(m.lib[a.h].v).l = 0)
                                            /\ TypeOf(m.lib[a.h].v).m # "any"
    [] a.a = "parse_exec" -> Live(m, a.c) /\ a.h \in DOMAIN m.exe /\ m.exe[a.h].st = "free" /\ a.p \in DOMAIN Prog
                             /\ Prog[a.p].needs \cap (m.ctx[a.c].maybe \ m.ctx[a.c].decl) = {}
                             \* (a text that only re-types names is generated when the names exist with their API type)
                             /\ (Prog[a.p].norun => Prog[a.p].needs \subseteq m.ctx[a.c].decl)
    [] a.a = "run"       -> a.h \in DOMAIN m.exe /\ ExeUsable(m, a.h) /\ a.c = m.exe[a.h].c /\ ~Prog[m.exe[a.h].p].norun
    \* bloc_execute2: the clone runs an executable of its original - one compiled before the clone was taken, or one
    \* compiled later that only uses names (variables, functions) the clone already had, while the clone itself has
    \* not declared anything new (else the symbol tables no longer line up)
    [] a.a = "run2"      -> a.h \in DOMAIN m.exe /\ ExeUsable(m, a.h) /\ Live(m, a.c) /\ a.c # m.exe[a.h].c /\ ~Prog[m.exe[a.h].p].norun
                            /\ \/ a.h \in m.ctx[a.c].par
                               \/ /\ m.ctx[a.c].pgen = m.exe[a.h].gen /\ m.ctx[a.c].decl = m.ctx[a.c].base
                                  /\ (Prog[m.exe[a.h].p].needs \cup Prog[m.exe[a.h].p].decl) \subseteq m.ctx[a.c].base
    [] a.a = "exec_free" -> a.h \in DOMAIN m.exe /\ m.exe[a.h].st # "free"
    [] a.a = "parse_expr" -> Live(m, a.c) /\ a.h \in DOMAIN m.expr /\ m.expr[a.h].st = "free" /\ a.p \in DOMAIN Expr
                             /\ Expr[a.p].needs \cap (m.ctx[a.c].maybe \ m.ctx[a.c].decl) = {}
    [] a.a = "eval"      -> a.g \in DOMAIN m.expr /\ ExprUsable(m, a.g) /\ a.c = m.expr[a.g].c /\ a.h \in DOMAIN m.lib /\ m.lib[a.h].st = "free"
                            \* (the variables it reads hold a value: one that a compiled-but-not-run text merely declared reads as the null
                            \*  of its declared type, which this machine does not track)
                            /\ (Expr[m.expr[a.g].q].needs \ FuncNames) \subseteq DOMAIN m.ctx[a.c].S.vars
    [] a.a = "expr_free" -> a.h \in DOMAIN m.expr /\ m.expr[a.h].st # "free"
    [] a.a = "drop"      -> Live(m, a.c) /\ a.h \in DOMAIN m.val /\ m.val[a.h].st = "free"
    [] OTHER -> FALSE

(* ------------------------------ transitions ---------------------------- *)
Post(m, a) ==
  CASE a.a = "ctx_clone" ->
         \* a clone has the variables and functions of the original, no pending result and no stop condition;
         \* the executables the original may lend to it are the ones compiled before the clone was taken
         [m EXCEPT !.ctx["c1"] = [NewCtx(m.ngen + 1) EXCEPT !.S = SettleC(m.ctx["c0"].S), !.decl = m.ctx["c0"].decl, !.maybe = m.ctx["c0"].maybe,
                                                            !.par = {h \in DOMAIN m.exe : ExeUsable(m, h) /\ m.exe[h].c = "c0"},
                                                            \* the names (and the symbol table generation of the original) the clone started from
                                                            !.base = m.ctx["c0"].decl, !.pgen = m.ctx["c0"].gen],
                   !.ngen = @ + 1]
    [] a.a = "ctx_free" ->
         [Invalidate(m, a.c) EXCEPT !.ctx[a.c] = DeadCtx]
    [] a.a = "ctx_purge" ->
         \* everything compiled against the purged symbol table may only be freed afterwards
         [Invalidate(m, a.c) EXCEPT !.ctx[a.c] = [NewCtx(m.ngen + 1) EXCEPT !.par = {}], !.ngen = @ + 1]
    [] a.a = "purge_wm" -> Invalidate(m, a.c)
    [] a.a = "reset_stop" -> [m EXCEPT !.ctx[a.c].stop = FALSE]
    [] a.a = "break" -> [m EXCEPT !.ctx[a.c].stop = TRUE]
    [] a.a = "val_new" -> [m EXCEPT !.val[a.h] = [st |-> "live", v |-> KindVal(a.p)]]
    [] a.a = "val_free" -> [m EXCEPT !.val[a.h] = [st |-> "free", v |-> VNil]]
    [] a.a = "val_null" -> [m EXCEPT !.val[a.h].v = NullOf(TypeOf(@))]
    [] a.a = "val_setstr" -> LET ty == TypeOf(m.val[a.h].v) IN
                             IF ty.l = 0 /\ ty.m \in {"str", "undef"} THEN [m EXCEPT !.val[a.h].v = VStr(a.n)] ELSE m
    [] a.a = "read_val" -> m
    [] a.a = "read_lib" -> m
    [] a.a \in {"lib_setstr", "lib_null"} ->
         LET nv == IF a.a = "lib_setstr" THEN VStr(a.n) ELSE NullOf(TypeOf(m.lib[a.h].v))
             c  == m.lib[a.h].c  n == m.lib[a.h].n IN
         \* every pointer into the same variable shows the new value
         [m EXCEPT !.ctx[c].S = SetVar(@, n, nv),
                   !.lib = [h \in DOMAIN @ |-> IF @[h].st = "valid" /\ @[h].c = c /\ @[h].n = n THEN [@[h] EXCEPT !.v = nv] ELSE @[h]]]
    [] a.a = "store" ->
         LET m1 == Invalidate(m, a.c) IN
         [m1 EXCEPT !.ctx[a.c].S = SetVar(@, a.n, m.val[a.h].v), !.ctx[a.c].decl = @ \cup {a.n}, !.val[a.h].st = "moved"]
    [] a.a = "load" ->
         IF a.n \in m.ctx[a.c].decl
         THEN [m EXCEPT !.lib[a.h] = [st |-> "valid", c |-> a.c, n |-> a.n,
                                      v |-> IF a.n \in DOMAIN m.ctx[a.c].S.vars THEN m.ctx[a.c].S.vars[a.n] ELSE VNull(TAny)]]
         ELSE m
    [] a.a = "parse_exec" ->
         LET m1 == Invalidate(m, a.c) IN
         IF ParseOk(m.ctx[a.c], a.p)
         THEN [m1 EXCEPT !.exe[a.h] = [st |-> "ok", c |-> a.c, p |-> a.p, gen |-> m.ctx[a.c].gen],
                         !.ctx[a.c].decl = @ \cup Prog[a.p].decl,
                         \* a function declaration takes effect when its text is compiled (and again whenever it runs)
                         !.ctx[a.c].S = DeclFuncs(Prog[a.p].ast, @)]
         \* names a rejected text mentions may stay declared (never assigned): whether they do is not pinned
         \* (variables only: the functions a rejected text declares are restored)
         ELSE [m1 EXCEPT !.ctx[a.c].maybe = @ \cup (Prog[a.p].decl \ FuncNames)]
    [] a.a \in {"run", "run2"} ->
         LET m1 == Invalidate(m, a.c) IN
         [m1 EXCEPT !.ctx[a.c] = RunOn(m.ctx[a.c], m.exe[a.h].p).cx]
    \* (the handle may be used again for another executable: it is no longer one the clones were taken with)
    [] a.a = "exec_free" -> [m EXCEPT !.exe[a.h] = [st |-> "free", c |-> "", p |-> 0, gen |-> 0],
                                      !.ctx = [c \in DOMAIN m.ctx |-> [m.ctx[c] EXCEPT !.par = @ \ {a.h}]]]
    [] a.a = "parse_expr" ->
         LET m1 == Invalidate(m, a.c) IN
         IF XParseOk(m.ctx[a.c], a.p) THEN [m1 EXCEPT !.expr[a.h] = [st |-> "ok", c |-> a.c, q |-> a.p, gen |-> m.ctx[a.c].gen]] ELSE m1
    [] a.a = "eval" ->
         LET m1 == Invalidate(m, a.c)
             r == Eval(Expr[m.expr[a.g].q].e, [m.ctx[a.c].S EXCEPT !.sig = "", !.err = NoErr]) IN
         IF Failed(r.S) THEN m1 ELSE [m1 EXCEPT !.lib[a.h] = [st |-> "valid", c |-> a.c, n |-> "", v |-> r.v]]
    [] a.a = "expr_free" -> [m EXCEPT !.expr[a.h] = [st |-> "free", c |-> "", q |-> 0, gen |-> 0]]
    [] a.a = "drop" ->
         IF m.ctx[a.c].hasrv
         THEN [m EXCEPT !.val[a.h] = [st |-> "live", v |-> m.ctx[a.c].rv], !.ctx[a.c].hasrv = FALSE, !.ctx[a.c].rv = VNil]
         ELSE m
    [] OTHER -> m

(* ------------------- judging the recorded result of a call ------------- *)
Major(ty) == CASE ty.m = "undef" -> 0 [] ty.m = "bool" -> 1 [] ty.m = "int" -> 2 [] ty.m = "dec" -> 3 [] ty.m = "str" -> 4
               [] ty.m = "obj" -> 5 [] ty.m = "raw" -> 6 [] ty.m = "row" -> 7 [] ty.m = "cpx" -> 9 [] OTHER -> -1
AccName(ty) == IF ty.l > 0 THEN "tab"
               ELSE CASE ty.m = "undef" -> "none" [] ty.m = "row" -> "row" [] ty.m = "obj" -> "none" [] OTHER -> ty.m

\* an observed value (seen only through the typed accessors) against the value the model holds
RECURSIVE ValWhy(_, _)
ValWhy(o, v) ==
  LET ty == TypeOf(v) IN
  IF o.acc = "nullptr" THEN "a NULL pointer instead of a value"
  ELSE IF ty.m = "any" THEN (IF o.isnull THEN "" ELSE "a null was expected")
  ELSE IF o.major # Major(ty) \/ o.ndim # ty.l THEN "the type of the value differs"
  ELSE IF o.isnull # IsNull(v) THEN "nullness differs"
  ELSE IF o.nacc # (IF AccName(ty) = "none" THEN 0 ELSE 1) \/ o.acc # AccName(ty)
    THEN "typed accessors must succeed exactly on the matching type (accepted by " \o ToString(o.nacc) \o ", first " \o o.acc \o ")"
  ELSE IF IsNull(v) THEN (IF AccName(ty) # "none" /\ ~o.datanull THEN "the accessor of a null value did not yield NULL data" ELSE "")
  ELSE IF o.datanull THEN "the accessor yielded NULL data for a non-null value"
  ELSE CASE v.t = "int"  -> IF o.val.t = "int" /\ o.val.v = v.v THEN "" ELSE "integer content differs"
         [] v.t = "dec"  -> IF o.val.t = "dec" /\ o.val.h = v.h THEN "" ELSE "decimal content differs"
         [] v.t = "bool" -> IF o.val.t = "bool" /\ o.val.v = v.v THEN "" ELSE "boolean content differs"
         [] v.t = "str"  -> IF o.val.t = "str" /\ "v" \in DOMAIN o.val /\ o.val.v = v.v THEN "" ELSE "string content differs"
         [] v.t = "raw"  -> IF o.val.t = "raw" /\ o.val.b = v.b THEN "" ELSE "bytes content differs"
         [] v.t = "tab"  -> IF o.val.t # "tab" \/ Len(o.val.v) # Len(v.v) THEN "table size differs"
                            ELSE IF o.val.over THEN "an item beyond the end of the table was handed out"
                            ELSE IF \E j \in DOMAIN v.v : ValWhy(o.val.v[j], v.v[j]) # ""
                              THEN "table item: " \o ValWhy(o.val.v[CHOOSE j \in DOMAIN v.v : ValWhy(o.val.v[j], v.v[j]) # ""], v.v[CHOOSE j \in DOMAIN v.v : ValWhy(o.val.v[j], v.v[j]) # ""])
                            ELSE ""
         [] v.t = "tup"  -> IF o.val.t # "tup" \/ Len(o.val.v) # Len(v.v) THEN "tuple size differs"
                            ELSE IF \E j \in DOMAIN v.v : ValWhy(o.val.v[j], v.v[j]) # "" THEN "a tuple item differs"
                            ELSE ""
         [] OTHER -> "value outside the modelled subset"

ErrNos(e) == CASE e.kind = "DIVIDE_BY_ZERO" -> {23} [] e.kind = "USER" -> {1} [] e.kind = "OUT_OF_RANGE" -> {21, 22} [] OTHER -> 1..40

\* a failed call must leave an error to read: a message and (when the model knows it) the code
ErrWhy(o, nos) == IF o.errstr = "" \/ o.errstr = "<null>" THEN "a failed call left no error message (bloc_strerror)"
                  ELSE IF nos # {} /\ o.errno \notin nos THEN "bloc_errno " \o ToString(o.errno) \o " is not the code of this error"
                  ELSE ""

Why(m, a, o) ==
  CASE a.a \in {"ctx_clone"} -> IF o.ok THEN "" ELSE "no context returned"
    [] a.a \in {"ctx_free", "ctx_purge", "purge_wm", "reset_stop", "break", "val_free", "exec_free", "expr_free"} -> ""
    [] a.a = "val_new" -> ValWhy(o.val, KindVal(a.p))
    [] a.a \in {"val_null", "val_setstr", "read_val"} ->
         LET v2 == Post(m, a).val[a.h].v IN
         IF a.a = "val_setstr" /\ o.ret # (TypeOf(m.val[a.h].v).l = 0 /\ TypeOf(m.val[a.h].v).m \in {"str", "undef"})
         THEN "bloc_assign_literal must succeed exactly on a string (or untyped) value"
         ELSE ValWhy(o.val, v2)
    [] a.a \in {"lib_setstr", "lib_null"} ->
         IF a.a = "lib_setstr" /\ ~o.ret THEN "bloc_assign_literal refused a string variable"
         ELSE LET w == ValWhy(o.val, Post(m, a).lib[a.h].v) IN IF w = "" THEN "" ELSE "after the assignment: " \o w
    [] a.a = "read_lib" -> LET w == ValWhy(o.val, m.lib[a.h].v) IN IF w = "" THEN "" ELSE "library-owned pointer no longer shows its value: " \o w
    [] a.a = "store" -> IF ~o.sym THEN "bloc_ctx_register_symbol failed" ELSE IF ~o.ret THEN "bloc_ctx_store_variable failed" ELSE ""
    [] a.a = "load" ->
         IF a.n \notin m.ctx[a.c].decl
         THEN (IF ~o.sym THEN ""
               ELSE IF a.n \notin m.ctx[a.c].maybe THEN "a symbol was found that was never declared"
               ELSE IF ~o.val.isnull THEN "a name that was never assigned holds a value" ELSE "")
         ELSE IF ~o.sym THEN "a declared symbol was not found"
         ELSE LET w == ValWhy(o.val, Post(m, a).lib[a.h].v) IN IF w = "" THEN "" ELSE "loaded variable: " \o w
    [] a.a = "parse_exec" ->
         IF ParseOk(m.ctx[a.c], a.p) THEN (IF o.ok THEN "" ELSE "a valid text was rejected: " \o o.errstr)
         ELSE IF o.ok THEN "an invalid text was accepted"
         ELSE ErrWhy(o, IF Prog[a.p].bad THEN Prog[a.p].errnos ELSE {2})
    [] a.a \in {"run", "run2"} ->
         LET r == RunOn(m.ctx[a.c], m.exe[a.h].p) IN
         IF r.err.kind = "OTHER" /\ r.err.name \in {"wide", "FUEL"} THEN "UNDECIDED"
         ELSE IF o.ret # r.ret THEN (IF r.ret THEN "the run must succeed, it reported: " \o o.errstr ELSE "the run must fail")
         ELSE IF o.out # r.out THEN "output differs; expected: " \o r.out
         ELSE IF ~r.ret THEN ErrWhy(o, ErrNos(r.err)) ELSE ""
    [] a.a = "parse_expr" ->
         IF XParseOk(m.ctx[a.c], a.p)
         THEN (IF ~o.ok THEN "a valid expression was rejected: " \o o.errstr
               ELSE IF Expr[a.p].maj >= 0 /\ (o.major # Expr[a.p].maj \/ o.ndim # Expr[a.p].nd) THEN "bloc_expression_type differs"
               ELSE "")
         ELSE IF o.ok THEN "an invalid expression was accepted"
         ELSE ErrWhy(o, IF Expr[a.p].bad THEN Expr[a.p].errnos ELSE {2})
    [] a.a = "eval" ->
         LET r == Eval(Expr[m.expr[a.g].q].e, [m.ctx[a.c].S EXCEPT !.sig = "", !.err = NoErr]) IN
         IF Failed(r.S) THEN (IF o.ok THEN "the evaluation must fail" ELSE ErrWhy(o, ErrNos(r.S.err)))
         ELSE IF ~o.ok THEN "the evaluation must succeed, it reported: " \o o.errstr
         ELSE ValWhy(o.val, r.v)
    [] a.a = "drop" ->
         IF m.ctx[a.c].hasrv THEN (IF ~o.got THEN "the returned value was not handed out" ELSE ValWhy(o.val, m.ctx[a.c].rv))
         ELSE IF o.got THEN "a returned value was handed out although none is pending" ELSE ""
    [] OTHER -> "unknown action"

(* ------------------- design-level invariants of the machine ------------ *)
\* a library-owned pointer the caller may still read belongs to a live context
LibOwned(m) == \A h \in DOMAIN m.lib : m.lib[h].st = "valid" => Live(m, m.lib[h].c)
\* a pending returned value exists only in a live context; a clone never starts with one
RvOwned(m) == \A c \in DOMAIN m.ctx : m.ctx[c].hasrv => m.ctx[c].alive
\* a clone can only be lent executables of its original that are still usable when it runs them (checked by Pre)
Released(m) == /\ \A c \in DOMAIN m.ctx : ~m.ctx[c].alive
               /\ \A h \in DOMAIN m.val : m.val[h].st = "free"
               /\ \A h \in DOMAIN m.exe : m.exe[h].st = "free"
               /\ \A h \in DOMAIN m.expr : m.expr[h].st = "free"
               /\ \A h \in DOMAIN m.lib : m.lib[h].st = "free"
=============================================================================
