------------------------------ MODULE Trace_C03 ------------------------------
(***************************************************************************)
(* Trace validation for C03: each trace line is one "arith" scenario: an   *)
(* expression over the variables A and B, a list of operand pairs that     *)
(* were bound through the API, and the results the real library returned.  *)
(* TLC recomputes every result with the limb arithmetic of Int64.tla       *)
(* (model-checked against the mathematical definitions by MC_Int64).       *)
(***************************************************************************)
EXTENDS Arith64, Json, IOUtils, FiniteSets
TraceFile == IF "TRACE" \in DOMAIN IOEnv THEN IOEnv.TRACE ELSE "trace.ndjson"
Scn == ndJsonDeserialize(TraceFile)
N == Len(Scn)

VARIABLES i, k
vars == <<i, k>>

Expected(st, pr) ==
  CASE st.kind = "bin" -> IF IsDec(pr.a) \/ IsDec(pr.b) \/ pr.a.k = "nd" \/ pr.b.k = "nd"
                          THEN (IF st.sym \in {"==", "!=", "<", "<=", ">", ">="} THEN [t |-> "unpinned"]
                                ELSE IF IsNullOp(pr.a) \/ IsNullOp(pr.b) THEN NullRes("dec") ELSE DecAny)
                          ELSE IntOp(st.sym, pr.a, pr.b)
    [] st.kind = "un" -> UnOp(st.sym, pr.a)
    [] st.kind = "int" -> IF pr.a.k = "d" THEN IntOfDec(pr.a) ELSE IF pr.a.k = "i" THEN IntRes(pr.a.b8) ELSE NullRes("int")
    [] st.kind = "num" -> [t |-> "set"]
    [] OTHER -> [t |-> "unpinned"]

\* "A / B" and "A % B" (or mod(A, B)) of the same operands are judged together by verification (Int64!DivModOk)
DivModPairOk(pr, q, r) ==
  IF IsNullOp(pr.a) \/ IsNullOp(pr.b) THEN SameRes(q, NullRes("int")) /\ SameRes(r, NullRes("int"))
  ELSE IF I64!IsZero(pr.b.b8) THEN SameRes(q, ErrRes("DIVIDE_BY_ZERO")) /\ SameRes(r, ErrRes("DIVIDE_BY_ZERO"))
  ELSE q.t = "int" /\ r.t = "int" /\ I64!DivModOk(pr.a.b8, pr.b.b8, q.b8, r.b8)

\* two results that must be the same value (any two NaN are the same)
Same2(a, b) == /\ a.t = b.t
               /\ CASE a.t = "int" -> a.b8 = b.b8 [] a.t = "err" -> a.name = b.name [] a.t = "null" -> a.ty = b.ty [] a.t = "bool" -> a.v = b.v
                     [] a.t = "dec" -> (a.cls = "nan" /\ b.cls = "nan") \/ (a.cls = b.cls /\ a.s = b.s /\ a.m = b.m /\ a.e = b.e)
                     [] OTHER -> FALSE
PairOk(st, pr, got) ==
  IF st.kind = "num" /\ pr.a.k = "i" THEN got.t = "dec" /\ got.cls = "fin" /\ [t |-> "dec", cls |-> "fin", s |-> got.s, m |-> got.m, e |-> got.e] \in NumOfIntSet(pr.a)
  ELSE IF st.kind = "num" THEN got.t \in {"dec", "null"}
  ELSE SameRes(got, Expected(st, pr))

\* A / B with a decimal operand: DIVIDE_BY_ZERO exactly for a zero divisor, a decimal otherwise
ZeroOp(x) == (x.k = "i" /\ I64!IsZero(x.b8)) \/ (x.k = "d" /\ x.cls = "fin" /\ I64!IsZero(x.m))
DivDecOk(pr, got) == IF ZeroOp(pr.b) THEN SameRes(got, ErrRes("DIVIDE_BY_ZERO")) ELSE got.t = "dec"
BadPairs(sc) ==
  LET st == sc.steps[1]  o == sc.obs[1] IN
  IF st.kind = "divdec" THEN {j \in DOMAIN st.pairs : ~DivDecOk(st.pairs[j], o.res[j])} ELSE
  IF st.kind = "divmod" THEN {j \in DOMAIN st.pairs : ~DivModPairOk(st.pairs[j], o.res[j], o.res2[j])}
  ELSE IF st.kind = "same2" THEN {j \in DOMAIN st.pairs : ~Same2(o.res[j], o.res2[j])}
  ELSE {j \in DOMAIN st.pairs : ~PairOk(st, st.pairs[j], o.res[j])}

Init == i \in 1..N /\ k = 0
Next ==
  /\ k = 0 /\ k' = 1 /\ i' = i
  /\ LET sc == Scn[i] IN
     IF Len(sc.obs) < 1 THEN PrintT("@@V " \o ToJson([id |-> sc.id, k |-> 1, why |-> "no observation: " \o sc.end \o " " \o sc.san]))
     ELSE IF sc.obs[1].oc # "ok" THEN PrintT("@@V " \o ToJson([id |-> sc.id, k |-> 1, why |-> "the expression was not accepted: " \o sc.obs[1].oc]))
     ELSE IF Len(sc.obs[1].res) # Len(sc.steps[1].pairs) THEN PrintT("@@V " \o ToJson([id |-> sc.id, k |-> 1, why |-> "missing results"]))
     ELSE LET bad == BadPairs(sc) IN
          IF bad = {} THEN TRUE
          ELSE LET j == CHOOSE j \in bad : \A q \in bad : j <= q
                   st == sc.steps[1] IN
               PrintT("@@V " \o ToJson([id |-> sc.id, k |-> 1,
                        why |-> st.expr \o ": " \o ToString(Cardinality(bad)) \o " wrong result(s); first: A=" \o ToJson(st.pairs[j].a)
                                \o " B=" \o ToJson(st.pairs[j].b) \o " got " \o ToJson(sc.obs[1].res[j]) \o (IF st.kind = "divmod" THEN " and " \o ToJson(sc.obs[1].res2[j]) ELSE "")
                                \o (IF st.kind = "divmod" THEN "" ELSE " expected " \o ToJson(Expected(st, st.pairs[j])))]))
Spec == Init /\ [][Next]_vars
=============================================================================
