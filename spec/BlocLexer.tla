------------------------------ MODULE BlocLexer ------------------------------
(***************************************************************************)
(* The scanner of BLOC (blocc/tokenizer.lex) over character classes, with  *)
(* its three start conditions, and the way text reaches it: the scanner is *)
(* restarted on every delivered unit (yy_scan_string) and carries only the *)
(* start condition from one unit to the next.                              *)
(*   Scan(text)            : tokens of the whole text                       *)
(*   UnitScan(units)       : tokens when each unit is scanned on its own    *)
(* C13 design result (model-checked for all texts up to MaxLen and all     *)
(* fragmentations): delivering WHOLE LINES gives exactly Scan(text)        *)
(* (LineInvariant); delivering arbitrary fragments does not                 *)
(* (FragInvariant is violated: a lexeme split at the boundary, or a '#'     *)
(* right after it re-anchored as a directive) - which is why the library    *)
(* re-assembles fragments into lines before scanning.                      *)
(***************************************************************************)
EXTENDS Integers, Sequences, FiniteSets, TLC
CONSTANT MaxLen

\* character classes: a letter, e the letter e, d digit, "." "+" q quote, b backslash, "/" "*" "#" s blank, n newline, "=" "<"
Alphabet == {"a", "e", "d", ".", "+", "q", "b", "/", "*", "#", "s", "n", "=", "<"}
IsLetter(c) == c \in {"a", "e"}
IsAlnum(c) == c \in {"a", "e", "d"}

\* length of the longest run of characters satisfying P starting at position i (0 if none)
RECURSIVE Run(_, _, _)
Run(t, i, S) == IF i > Len(t) \/ t[i] \notin S THEN 0 ELSE 1 + Run(t, i + 1, S)
IsDigit == {"d"}
IsBlank == {"s"}
NotNl == Alphabet \ {"n"}
Alnum == {"a", "e", "d"}
At(t, i) == IF i >= 1 /\ i <= Len(t) THEN t[i] ELSE "$"

\* candidate match lengths in the INITIAL condition, in rule order; the longest wins, ties go to the first
IntLen(t, i) == Run(t, i, IsDigit)
DoubleLen(t, i) ==
  LET a == Run(t, i, IsDigit) IN
  IF At(t, i + a) = "." /\ Run(t, i + a + 1, IsDigit) > 0 THEN a + 1 + Run(t, i + a + 1, IsDigit) ELSE 0
FloatLen(t, i) ==
  LET m == IF DoubleLen(t, i) > 0 THEN DoubleLen(t, i) ELSE IntLen(t, i) IN
  IF m = 0 \/ At(t, i + m) # "e" THEN 0
  ELSE LET sg == IF At(t, i + m + 1) = "+" THEN 1 ELSE 0
           dg == Run(t, i + m + 1 + sg, IsDigit)
       IN  IF dg > 0 THEN m + 1 + sg + dg ELSE 0
KeywordLen(t, i) == IF IsLetter(At(t, i)) THEN Run(t, i, Alnum) ELSE 0
LineRest(t, i) == Run(t, i, NotNl)
CommentLen(t, i) == IF At(t, i) = "/" /\ At(t, i + 1) = "/" THEN LineRest(t, i) ELSE 0
DirectiveLen(t, i, bol) ==       \* ^[ \t]*#.*   : only at the beginning of a line (of the BUFFER being scanned)
  LET sp == Run(t, i, IsBlank) IN
  IF bol /\ At(t, i + sp) = "#" THEN sp + LineRest(t, i + sp) ELSE 0
TwoLen(t, i) == IF <<At(t, i), At(t, i + 1)>> \in {<<"=", "=">>, <<"<", "=">>, <<"<", "<">>, <<"*", "*">>, <<"+", "+">>} THEN 2 ELSE 0

\* one scanning step: [k (token kind), n (length), st (start condition after)]
Step(t, i, st, bol) ==
  IF st = "L" THEN
       IF At(t, i) = "q" /\ At(t, i + 1) # "q" THEN [k |-> "LITEND", n |-> 1, st |-> "I"]
       ELSE IF <<At(t, i), At(t, i + 1)>> \in {<<"b", "b">>, <<"q", "q">>, <<"b", "q">>} THEN [k |-> "LITSTR", n |-> 2, st |-> "L"]
       ELSE IF At(t, i) = "q" THEN [k |-> "LITEND", n |-> 1, st |-> "I"]
       ELSE [k |-> "LITSTR", n |-> 1, st |-> "L"]
  ELSE IF st = "C" THEN
       IF At(t, i) = "*" /\ At(t, i + 1) = "/" THEN [k |-> "COMEND", n |-> 2, st |-> "I"] ELSE [k |-> "COMSTR", n |-> 1, st |-> "C"]
  ELSE \* INITIAL: longest match, first rule on ties
       LET cands == << [k |-> "COMBEG", n |-> IF At(t, i) = "/" /\ At(t, i + 1) = "*" THEN 2 ELSE 0, st |-> "C"],
                       [k |-> "LITBEG", n |-> IF At(t, i) = "q" THEN 1 ELSE 0, st |-> "L"],
                       [k |-> "COMMENT", n |-> CommentLen(t, i), st |-> "I"],
                       [k |-> "DIRECTIVE", n |-> DirectiveLen(t, i, bol), st |-> "I"],
                       [k |-> "INTEGER", n |-> IntLen(t, i), st |-> "I"],
                       [k |-> "DOUBLE", n |-> DoubleLen(t, i), st |-> "I"],
                       [k |-> "FLOAT", n |-> FloatLen(t, i), st |-> "I"],
                       [k |-> "SPACE", n |-> Run(t, i, IsBlank), st |-> "I"],
                       [k |-> "OP2", n |-> TwoLen(t, i), st |-> "I"],
                       [k |-> "KEYWORD", n |-> KeywordLen(t, i), st |-> "I"],
                       [k |-> "CHAR", n |-> 1, st |-> "I"] >>
           best == CHOOSE j \in DOMAIN cands : /\ \A q \in DOMAIN cands : cands[q].n <= cands[j].n
                                               /\ \A q \in DOMAIN cands : cands[q].n = cands[j].n => j <= q
       IN  cands[best]

\* scan one buffer from position i: returns [toks, st]
RECURSIVE ScanFrom(_, _, _, _)
ScanFrom(t, i, st, acc) ==
  IF i > Len(t) THEN [toks |-> acc, st |-> st]
  ELSE LET bol == i = 1 \/ t[i - 1] = "n"
           s == Step(t, i, st, bol)
       IN  ScanFrom(t, i + s.n, s.st, Append(acc, [k |-> s.k, x |-> SubSeq(t, i, i + s.n - 1)]))
Scan(t) == ScanFrom(t, 1, "I", <<>>).toks

\* units scanned one after the other, only the start condition is carried over
RECURSIVE UnitScan(_, _, _)
UnitScan(units, st, acc) ==
  IF units = <<>> THEN acc
  ELSE LET r == ScanFrom(Head(units), 1, st, <<>>) IN UnitScan(Tail(units), r.st, acc \o r.toks)

\* cut t after the positions in cuts
RECURSIVE CutAt(_, _, _)
CutAt(t, cuts, from) ==
  LET nxt == {c \in cuts : c >= from} IN
  IF nxt = {} THEN (IF from <= Len(t) THEN <<SubSeq(t, from, Len(t))>> ELSE <<>>)
  ELSE LET c == CHOOSE c \in nxt : \A d \in nxt : c <= d IN <<SubSeq(t, from, c)>> \o CutAt(t, cuts, c + 1)
Lines(t) == CutAt(t, {j \in 1..Len(t) : t[j] = "n"}, 1)

VARIABLES text, cuts
Init == \E n \in 1..MaxLen : text \in [1..n -> Alphabet] /\ cuts = {}
Next == cuts' \in SUBSET (1..(Len(text) - 1)) /\ cuts' # cuts /\ cuts = {} /\ text' = text

\* what the fixed library does: fragments are re-assembled into lines, whatever the cuts
LineInvariant == UnitScan(Lines(text), "I", <<>>) = Scan(text)
\* what a scanner restarted on raw fragments would give (violated: the named deviation DevScanPerFragment)
FragInvariant == UnitScan(CutAt(text, cuts, 1), "I", <<>>) = Scan(text)
=============================================================================
