------------------------------ MODULE Gen_C08 ------------------------------
(***************************************************************************)
(* Scenario generator for C08: call histories.  A fixed set of function    *)
(* definitions (conditionally assigned locals, a failing body, recursion,  *)
(* mutual recursion, arity overloads, a by-copy table parameter, a local   *)
(* that shadows a caller variable) and every sequence of up to H calls     *)
(* from a pool, each followed by every observed call; plus the recursion   *)
(* limit boundary and the same call site re-evaluated in a loop.           *)
(***************************************************************************)
EXTENDS Bloc, Json, IOUtils
Env(n, d) == IF n \in DOMAIN IOEnv THEN IOEnv[n] ELSE d
H == atoi(Env("GEN_DEPTH", "2"))

Defs == <<
  Func("F1", <<"A">>, <<If(Bin(">", V("A"), I(0)), <<Let("L", Bin("*", V("A"), I(10)))>>, <<>>), Return(V("L"))>>),
  Func("F2", <<"A">>, <<Let("L", V("A")), If(Bin("==", V("A"), I(2)), <<RaiseS("E1")>>, <<>>), Return(Bin("+", V("L"), I(1)))>>),
  Func("F3", <<"N">>, <<If(Bin("<=", V("N"), I(0)), <<Return(I(0))>>, <<>>), Return(Bin("+", V("N"), UCall("F3", <<Bin("-", V("N"), I(1))>>)))>>),
  Func("F5", <<"N">>, <<Return(I(0))>>),
  Func("F4", <<"N">>, <<If(Bin("==", V("N"), I(0)), <<Return(I(1))>>, <<>>), Return(UCall("F5", <<Bin("-", V("N"), I(1))>>))>>),
  Func("F5", <<"N">>, <<If(Bin("==", V("N"), I(0)), <<Return(I(0))>>, <<>>),
                        If(Bin("==", V("N"), I(1)), <<Let("M", I(7))>>, <<>>),
                        PutS(<<V("M")>>), Return(UCall("F4", <<Bin("-", V("N"), I(1))>>))>>),
  Func("F6", <<"A">>, <<Return(Bin("+", V("A"), I(100)))>>),
  Func("F6", <<"A", "B">>, <<Return(Bin("+", V("A"), V("B")))>>),
  Func("F7", <<"T">>, <<Do(Mem(V("T"), "put", <<I(0), I(99)>>)), Let("G", I(5)), Return(Mem(V("T"), "at", <<I(0)>>))>>),
  Func("F8", <<"A">>, <<If(Bin("==", V("A"), I(1)), <<Let("W", Str("w")), Return(V("W"))>>, <<>>),
                        If(Bin("==", V("A"), I(2)), <<Let("W2", Bin("/", I(1), I(0)))>>, <<>>),
                        PrintS(<<Str("in8 "), V("W"), V("W2")>>)>>),
  Func("F10", <<"A">>, <<If(Bin("<", V("A"), I(0)), <<Return(NoExpr)>>, <<>>), PutS(<<Str("s"), V("A")>>), Return(V("A"))>>),
  Func("F9", <<"A">>, <<For("K", I(1), V("A"), NoExpr, "auto", <<If(Bin("==", V("K"), I(2)), <<Return(V("K"))>>, <<>>)>>), Return(I(-1))>>),
  \* the error being handled is part of a call's private state too: read outside of any handler it is empty, whatever an earlier
  \* call's handler did (completed, or raised another error)
  Func("F11", <<"A">>, <<PutS(<<Str("["), Item(Call("error", <<>>), 1), Str("]")>>),
                         If(Bin(">", V("A"), I(0)), <<Begin(<<RaiseS("E2")>>, <<When("E2", <<If(Bin(">", V("A"), I(1)), <<RaiseS("E3")>>, <<PutS(<<Str("h")>>)>>)>>)>>)>>, <<>>),
                         PutS(<<Str("["), Item(Call("error", <<>>), 1), Str("]")>>), Return(V("A"))>>),
  \* a loop whose body holds a protected block; the handler raises another error, which leaves the loop and the function:
  \* the next call starts the loop afresh
  Func("F12", <<"A">>, <<Let("S", I(0)),
                         For("K", I(1), I(3), NoExpr, "auto", <<Begin(<<If(Bin("==", V("K"), V("A")), <<RaiseS("E1")>>, <<>>)>>, <<When("E1", <<RaiseS("E2")>>)>>),
                                                                 Let("S", Bin("+", V("S"), V("K")))>>),
                         Return(V("S"))>>),
  Func("F14", <<"A">>, <<Let("S", I(0)), Let("Q", Call("tab", <<I(3), I(1)>>)),
                         Forall("E", V("Q"), "auto", <<Begin(<<If(Bin("==", V("S"), V("A")), <<RaiseS("E1")>>, <<>>)>>, <<When("E1", <<RaiseS("E2")>>)>>),
                                                        Let("S", Bin("+", V("S"), V("E")))>>),
                         Return(V("S"))>>),
  \* a traversal of a computed table left by return: the next call traverses its own table from the start
  Func("F13", <<"A">>, <<Forall("E", Call("tab", <<I(2), V("A")>>), "auto", <<Return(V("E"))>>), Return(I(-1))>>),
  Func("F15", <<"A">>, <<Forall("E", Mem(Call("tab", <<I(1), V("A")>>), "concat", <<Bin("+", V("A"), I(1))>>), "desc",
                                <<If(Bin(">", V("E"), V("A")), <<Return(V("E"))>>, <<>>)>>), Return(I(-1))>>),
  Func("F16", <<"A">>, <<For("K", V("A"), Bin("+", V("A"), I(2)), NoExpr, "auto", <<While(B(TRUE), <<Return(V("K"))>>)>>), Return(I(-1))>>)
>>

CallPool == <<
  UCall("F1", <<I(1)>>), UCall("F1", <<I(0)>>), UCall("F2", <<I(1)>>), UCall("F2", <<I(2)>>),
  UCall("F3", <<I(2)>>), UCall("F4", <<I(3)>>), UCall("F4", <<I(2)>>), UCall("F6", <<I(1)>>), UCall("F6", <<I(1), I(2)>>),
  UCall("F7", <<V("TT")>>), UCall("F8", <<I(1)>>), UCall("F8", <<I(0)>>), UCall("F8", <<I(2)>>),
  UCall("F9", <<I(3)>>), UCall("F9", <<I(1)>>), UCall("F10", <<I(-1)>>), UCall("F10", <<I(1)>>),
  UCall("F11", <<I(0)>>), UCall("F11", <<I(1)>>), UCall("F11", <<I(2)>>),
  UCall("F12", <<I(2)>>), UCall("F12", <<I(0)>>), UCall("F14", <<I(1)>>), UCall("F14", <<I(9)>>),
  UCall("F13", <<I(3)>>), UCall("F13", <<I(5)>>), UCall("F15", <<I(3)>>), UCall("F15", <<I(7)>>), UCall("F16", <<I(1)>>), UCall("F16", <<I(5)>>)
>>

Guarded(c) == Begin(<<Let("R", c), PrintS(<<Str("="), V("R")>>)>>, <<When("OTHERS", <<PrintS(<<Str("err "), Item(Call("error", <<>>), 1)>>)>>)>>)
Prelude == <<Let("TT", Call("tab", <<I(2), I(7)>>)), Let("G", I(1)), Let("L", Str("caller")), Let("W", I(3))>>

\* the first 17 calls are crossed with each other (histories of <= H calls, every call observed afterwards); the later ones
\* exercise one function each: every history of <= H + 1 calls of the same function, every call of it observed afterwards
Crossed == 1..17
Groups == {18..20, 21..22, 23..24, 25..26, 27..28, 29..30}
RECURSIVE HistOver(_, _)
HistOver(n, pool) == IF n = 0 THEN {<<>>} ELSE {Append(h, c) : h \in HistOver(n - 1, pool), c \in pool}
Histories == UNION {HistOver(n, Crossed) : n \in 0..(IF H > 2 THEN 2 ELSE H)}
HistObs == {<<h, o>> : h \in Histories, o \in Crossed}
           \* deeper tier: every history of 3 calls, observed by calling the first one again (TLC renders about 25 programs a second)
           \cup (IF H > 2 THEN {<<h, h[1]>> : h \in HistOver(3, Crossed)} ELSE {})
           \cup UNION {{<<h, o>> : h \in UNION {HistOver(n, g) : n \in 1..(H + 1)}, o \in g} : g \in Groups}

HProg(h, obs) == Defs \o Prelude \o [j \in DOMAIN h |-> Guarded(CallPool[h[j]])] \o <<PrintS(<<Str("--")>>), Guarded(CallPool[obs])>>

\* same call site evaluated repeatedly (the callee's cached environment is reused)
LoopProgs == {Defs \o Prelude \o <<For("I", I(1), I(3), NoExpr, "auto", <<PutS(<<UCall("F1", <<Bin("-", I(2), V("I"))>>), Str(" ")>>)>>), PrintS(<<Str("")>>),
                                   For("I", I(0), I(2), NoExpr, "auto", <<Begin(<<PutS(<<UCall("F8", <<V("I")>>), Str(" ")>>)>>, <<When("OTHERS", <<PutS(<<Str("E ")>>)>>)>>)>>)>>}

\* recursion limit: 255 nested calls are fine, the 256th raises (not catchable)
RecDefs == <<Func("RR", <<"N">>, <<If(Bin("<=", V("N"), I(1)), <<Return(I(1))>>, <<>>), Return(Bin("+", I(1), UCall("RR", <<Bin("-", V("N"), I(1))>>)))>>)>>
RecProgs == {RecDefs \o <<Begin(<<Let("R", UCall("RR", <<I(n)>>)), PrintS(<<V("R")>>)>>, <<When("OTHERS", <<PrintS(<<Str("caught")>>)>>)>>), PrintS(<<Str("after")>>)>>
               : n \in {1, 2, 254, 255, 256, 257}}
             \cup {RecDefs \o <<Begin(<<Let("R", UCall("RR", <<I(256)>>))>>, <<When("OTHERS", <<PrintS(<<Str("caught")>>)>>)>>)>>,
                   RecDefs \o <<Let("R", UCall("RR", <<I(300)>>))>>}

\* the same function entered at very different nesting depths (its recycled environment must not remember the depth)
DeepDefs == RecDefs \o <<Func("DP", <<"N", "M">>, <<If(Bin("<=", V("N"), I(0)), <<Return(UCall("RR", <<V("M")>>))>>, <<>>), Return(UCall("DP", <<Bin("-", V("N"), I(1)), V("M")>>))>>)>>
Guard2(c) == Begin(<<Let("R", c), PrintS(<<Str("="), V("R")>>)>>, <<When("OTHERS", <<PrintS(<<Str("caught")>>)>>)>>)
DeepProgs == { DeepDefs \o <<Guard2(UCall("DP", <<I(a), I(1)>>)), Guard2(UCall("RR", <<I(b)>>)), Guard2(UCall("DP", <<I(c), I(d)>>)), PrintS(<<Str("end")>>)>>
                 : a \in {0, 200}, b \in {1, 150}, c \in {0, 100, 241}, d \in {1, 30} }

\* a function called from inside the argument list of a call of itself (the callee's context is taken while the
\* arguments are being bound), after earlier calls have completed; conditionally assigned locals; Ackermann's shape
NestDefs == <<
  Func("ADD", <<"A", "B">>, <<Return(Bin("+", V("A"), V("B")))>>),
  Func("TAGN", <<"N">>, <<If(Bin(">", V("N"), I(100)), <<Let("W", Str("big"))>>, <<>>), If(Call("isnull", <<V("W")>>), <<Let("W", Str("small"))>>, <<>>),
                          Return(V("W"))>>),
  Func("ACK", <<"M", "N">>, <<If(Bin("==", V("M"), I(0)), <<Return(Bin("+", V("N"), I(1)))>>, <<>>),
                               If(Bin("==", V("N"), I(0)), <<Return(UCall("ACK", <<Bin("-", V("M"), I(1)), I(1)>>))>>, <<>>),
                               Return(UCall("ACK", <<Bin("-", V("M"), I(1)), UCall("ACK", <<V("M"), Bin("-", V("N"), I(1))>>)>>))>>),
  Func("FOP", <<"X">>, <<Return(Call("isnull", <<V("X")>>))>>) >>
NestPool == << UCall("ADD", <<I(1), I(2)>>), UCall("ADD", <<I(1), UCall("ADD", <<I(2), I(3)>>)>>), UCall("ADD", <<UCall("ADD", <<I(1), I(2)>>), UCall("ADD", <<I(3), I(4)>>)>>),
               UCall("TAGN", <<I(7)>>), UCall("TAGN", <<I(500)>>), UCall("TAGN", <<Bin("+", I(50), Mem(UCall("TAGN", <<I(500)>>), "count", <<>>))>>),
               UCall("ACK", <<I(1), I(1)>>), UCall("ACK", <<I(2), I(2)>>) >>
NestProgs == {NestDefs \o <<Guard2(NestPool[a]), Guard2(NestPool[b]), Guard2(NestPool[c]), PrintS(<<Str("end")>>)>> : a \in DOMAIN NestPool, b \in DOMAIN NestPool, c \in DOMAIN NestPool}
\* a variable holding a typed null given to an untyped parameter, then inspected again by the caller
NullArgProgs == {NestDefs \o <<Let("NI", Call(k, <<>>)), PrintS(<<UCall("FOP", <<V("NI")>>), Call("isnull", <<V("NI")>>), Call("isnull", <<V("NI")>>), Call("typeof", <<V("NI")>>)>>),
                               PrintS(<<UCall("FOP", <<NullC>>), Call("isnull", <<NullC>>)>>)>> : k \in {"int", "str", "num", "bool"}}

\* a function body cannot see the caller's variables: such a definition is not a valid program
Rejects == {"H = 5;\nfunction FX(A) return undefined is begin return H; end;",
            "H = 5;\nfunction FX(A) return undefined is begin H2 = H + A; return H2; end;"}

VARIABLE p
Init == p \in {[kind |-> "hist", m |-> HProg(q[1], q[2])] : q \in HistObs}
              \cup {[kind |-> "loop", m |-> x] : x \in LoopProgs} \cup {[kind |-> "rec", m |-> x] : x \in RecProgs \cup DeepProgs}
              \cup {[kind |-> "nest", m |-> x] : x \in NestProgs \cup NullArgProgs}
              \cup {[kind |-> "reject", m |-> <<>>, t |-> x] : x \in Rejects}
Next == UNCHANGED p
Scenario(q) ==
  IF q.kind = "reject" THEN
    [prop |-> "C08", key |-> q.kind, steps |-> << [op |-> "exec", ctx |-> 0, reject |-> TRUE, ast |-> <<>>, text |-> q.t], [op |-> "dump", ctx |-> 0] >>]
  ELSE IF q.kind # "hist" THEN
    [prop |-> "C08", key |-> q.kind,
     steps |-> << [op |-> "exec", ctx |-> 0, ast |-> q.m, text |-> Render(q.m)], [op |-> "dump", ctx |-> 0],
                  [op |-> "step", ctx |-> 1, ast |-> q.m, text |-> Render(q.m)], [op |-> "dump", ctx |-> 1] >>]
  ELSE
    [prop |-> "C08", key |-> q.kind,
     steps |-> << [op |-> "exec", ctx |-> 0, ast |-> q.m, text |-> Render(q.m)],
                  [op |-> "dump", ctx |-> 0],
                  [op |-> "exec", ctx |-> 0, ast |-> <<Guarded(CallPool[1]), Guarded(CallPool[2])>>, text |-> Render(<<Guarded(CallPool[1]), Guarded(CallPool[2])>>)],
                  [op |-> "step", ctx |-> 1, ast |-> q.m, text |-> Render(q.m)],
                  [op |-> "dump", ctx |-> 1] >>]
Emit == PrintT("@@S " \o ToJson(Scenario(p)))
=============================================================================
