------------------------------ MODULE Gen_C18 ------------------------------
(***************************************************************************)
(* Scenario generator for C18 (modules csv, utf8, file, sqlite3).          *)
(*  U: utf8 - all sequences of <= 3 characters out of well-formed          *)
(*     characters of 1..4 bytes; count / rawsize / string / at / substr /  *)
(*     insert / remove over the position lattice; expected results from    *)
(*     the independent decoder ModUtf8; ill-formed texts: totality only.   *)
(*  C: csv - rows of <= 3 fields over {separator, quote, blank, CR, LF, x, *)
(*     empty}; deserialize(serialize(row)) = row, also fed line by line.   *)
(*  F: file - write / seek / read sequences, content confirmed by an       *)
(*     independent read of the file.                                       *)
(*  Q: sqlite3 - tuples bound as parameters and queried back, confirmed by *)
(*     an independent reader of the database.                              *)
(***************************************************************************)
EXTENDS Bloc, ModUtf8, Json, IOUtils, SequencesExt
MF == INSTANCE ModFile
Env(n, d) == IF n \in DOMAIN IOEnv THEN IOEnv[n] ELSE d

Step(t) == [op |-> "expr", ctx |-> 0, text |-> t]
W(t, v) == [op |-> "expr", ctx |-> 0, text |-> t, want |-> v]
MustErr(t) == [op |-> "expr", ctx |-> 0, text |-> t, must_err |-> TRUE]
Ex(t) == [op |-> "exec", ctx |-> 0, free |-> TRUE, text |-> t]
Begin0(imp) == <<[op |-> "new", ctx |-> 0, trusted |-> TRUE], Ex("import " \o imp \o ";")>>

Flat(ss) == LET F[i \in 0..Len(ss)] == IF i = 0 THEN <<>> ELSE F[i - 1] \o ss[i] IN F[Len(ss)]

(* --------------------------------- utf8 -------------------------------- *)
Chars == << <<65>>, <<195, 169>>, <<226, 130, 172>>, <<240, 159, 152, 128>>, <<122>> >>
BadChars == << <<128>>, <<255>>, <<195>>, <<237, 160, 128>>, <<240, 159>> >>
RECURSIVE Words(_, _)
Words(n, k) == IF n = 0 THEN {<<>>} ELSE {<<>>} \cup {Append(w, c) : w \in Words(n - 1, k), c \in 1..k}
BytesExpr(bs) == "str(raw(0,0)" \o (LET J[i \in 0..Len(bs)] == IF i = 0 THEN "" ELSE J[i - 1] \o ".concat(" \o ToString(bs[i]) \o ")" IN J[Len(bs)]) \o ")"
PackedText(c) == \* the integer the module uses for a character, as BLOC source (built from bytes to stay below 2^31 in TLC)
  IF Len(c) = 1 THEN ToString(c[1])
  ELSE IF Len(c) = 2 THEN ToString(c[1] * 256 + c[2])
  ELSE IF Len(c) = 3 THEN ToString((c[1] * 256 + c[2]) * 256 + c[3])
  ELSE "(" \o ToString(c[1] * 256 + c[2]) \o " * 65536 + " \o ToString(c[3] * 256 + c[4]) \o ")"
PosU(n) == {0, 1, n, n + 1} \cup (IF n >= 1 THEN {n - 1} ELSE {})
UScenario(w) ==
  LET cs == [j \in DOMAIN w |-> Chars[w[j]]]  n == Len(cs)  bs == Flatten(cs)
      mk == Ex("U = utf8(" \o BytesExpr(bs) \o ");")
      Q == SetToSeq(PosU(n))
      Q2 == SetToSeq(PosU(n) \X {0, 1, 2, 5})
  IN [prop |-> "C18", key |-> "utf8",
      steps |-> Begin0("utf8") \o <<mk, W("U.count()", VInt(n)), W("U.rawsize()", VInt(Len(bs))), W("raw(U.string())", VRaw(bs)), W("U.empty()", VBool(n = 0))>>
        \o [j \in DOMAIN Q |-> IF Q[j] < n THEN W("U.at(" \o ToString(Q[j]) \o ")", [t |-> "packed", b |-> AtChar(cs, Q[j])]) ELSE MustErr("U.at(" \o ToString(Q[j]) \o ")")]
        \* every position from the number of characters up to beyond the number of bytes is out of range: an error, never a value
        \o [j \in 1..(Len(bs) - n + 2) |-> MustErr("U.at(" \o ToString(n + j - 1) \o ")")]
        \o <<MustErr("U.at((-1))"), MustErr("U.at(9223372036854775807)"), Step("U.at(int())"), Step("U.substr((-1))"), Step("U.substr(9223372036854775807, 2)"), Step("U.remove((-1), 1)"), Step("U.insert((-1), 65)")>>
        \o [j \in DOMAIN Q |-> W("raw(U.substr(" \o ToString(Q[j]) \o "))", VRaw(Flatten(SubstrChars(cs, Q[j], n + 5))))]
        \o [j \in DOMAIN Q2 |-> W("raw(U.substr(" \o ToString(Q2[j][1]) \o ", " \o ToString(Q2[j][2]) \o "))", VRaw(Flatten(SubstrChars(cs, Q2[j][1], Q2[j][2]))))]
        \o Flat([j \in DOMAIN Q |-> IF Q[j] <= n
                   THEN <<mk, W("U.insert(" \o ToString(Q[j]) \o ", " \o PackedText(Chars[3]) \o ")", VBool(TRUE)), W("raw(U.string())", VRaw(Flatten(InsertChar(cs, Q[j], Chars[3])))), W("U.count()", VInt(n + 1))>>
                   ELSE <<mk, W("U.insert(" \o ToString(Q[j]) \o ", 65)", VBool(FALSE)), W("raw(U.string())", VRaw(bs))>>])
        \o Flat([j \in DOMAIN Q2 |-> IF Q2[j][1] < n
                   THEN <<mk, W("U.remove(" \o ToString(Q2[j][1]) \o ", " \o ToString(Q2[j][2]) \o ")", VBool(TRUE)), W("raw(U.string())", VRaw(Flatten(RemoveChars(cs, Q2[j][1], Q2[j][2]))))>>
                   ELSE <<mk, W("U.remove(" \o ToString(Q2[j][1]) \o ", " \o ToString(Q2[j][2]) \o ")", VBool(FALSE)), W("raw(U.string())", VRaw(bs))>>])
        \o Flat([j \in DOMAIN Q |-> IF Q[j] <= n
                   THEN <<mk, Ex("V = utf8(U);"), W("U.insert(" \o ToString(Q[j]) \o ", V)", VInt(n)),
                          W("raw(U.string())", VRaw(Flatten(SubSeq(cs, 1, Q[j]) \o cs \o SubSeq(cs, Q[j] + 1, n)))), W("raw(V.string())", VRaw(bs)),
                          mk, W("U.insert(" \o ToString(Q[j]) \o ", U)", VInt(n)),                          \* the receiver itself
                          W("raw(U.string())", VRaw(Flatten(SubSeq(cs, 1, Q[j]) \o cs \o SubSeq(cs, Q[j] + 1, n)))), W("U.count()", VInt(2 * n)), W("U.rawsize()", VInt(2 * Len(bs)))>>
                   ELSE <<>>])
        \o <<mk, Ex("U.concat(U);"), W("raw(U.string())", VRaw(bs \o bs)), W("U.count()", VInt(2 * n))>>
        \o <<mk, Ex("V = utf8(U);"), Ex("V.append(65);"), W("raw(U.string())", VRaw(bs)), W("raw(V.string())", VRaw(bs \o <<65>>)), Ex("U.concat(V);"), W("raw(U.string())", VRaw(bs \o bs \o <<65>>))>>]
\* ill-formed texts: any defined result or BLOC error, never an out-of-bounds access
UBadScenario(w) ==
  LET all == Chars \o BadChars
      bs == Flatten([j \in DOMAIN w |-> all[w[j]]]) IN
  [prop |-> "C18", key |-> "utf8bad",
   steps |-> Begin0("utf8") \o <<Ex("U = utf8(" \o BytesExpr(bs) \o ");"), Step("U.count()"), Step("U.rawsize()"), Step("raw(U.string())"), Step("U.at(0)"), Step("U.at(1)"), Step("U.at(2)"),
                                 Step("raw(U.substr(0, 9))"), Step("raw(U.substr(1))"), Step("U.remove(0, 1)"), Step("U.insert(1, 255)"), Step("U.insert(0, 4036991104)"), Step("U.append(128)"), Step("raw(U.string())"),
                                 Step("U.toupper().tolower().normalize().capitalize().translit().count()")>>]

(* ---------------------------------- csv -------------------------------- *)
\* field symbols: value as BLOC literal text
FSym == <<",", "\\\"", " ", "\\n", "x", ";", "\\r">>
RECURSIVE FWords(_)
FWords(n) == IF n = 0 THEN {<<>>} ELSE {<<>>} \cup {Append(w, c) : w \in FWords(n - 1), c \in DOMAIN FSym}
FLit(w) == "\"" \o (LET J[i \in 0..Len(w)] == IF i = 0 THEN "" ELSE J[i - 1] \o FSym[w[i]] IN J[Len(w)]) \o "\""
Fields == FWords(2)
Rows == {<<f>> : f \in Fields \ {<<>>}} \cup {<<f, g>> : f \in Fields, g \in Fields}
        \cup {<<f, g, h>> : f \in {<<>>, <<1>>, <<2, 4>>, <<4>>}, g \in {<<>>, <<2>>, <<4, 1>>, <<5, 5>>}, h \in {<<>>, <<4>>, <<2, 2>>, <<1, 2>>}}
CsvScript(row, fmt) ==
  "C = csv(" \o fmt \o "); T = tab(0, str());" \o (LET J[i \in 0..Len(row)] == IF i = 0 THEN "" ELSE J[i - 1] \o " T.concat(" \o FLit(row[i]) \o ");" IN J[Len(row)])
  \o "\nK = " \o ToString(Len(row)) \o "; S = C.serialize(T);\nT2 = tab(); M = C.deserialize(S, T2);\n"
  \o "OK2 = T2.count() == K; for J in 0 to K - 1 loop OK2 = OK2 and T2.at(J) == T.at(J); end loop;\n"
  \o "T3 = tab(); LINE = \"\"; FIRST = true; NEED = false; N = S.count(); I = 0; NL = 0;\n"
  \o "while I < N loop LINE.concat(S.at(I)); if S.at(I) == 10 or I == N - 1 then NL = NL + 1; "
  \o "if FIRST then NEED = C.deserialize(LINE, T3); FIRST = false; else NEED = C.deserialize_next(LINE, T3); end if; LINE = \"\"; end if; I = I + 1; end loop;\n"
  \o "OK3 = T3.count() == K; for J in 0 to K - 1 loop OK3 = OK3 and T3.at(J) == T.at(J); end loop;\nERR = C.in_error();"
CScenario(row, fmt) ==
  [prop |-> "C18", key |-> "csv",
   steps |-> Begin0("csv") \o <<Ex(CsvScript(row, fmt)), W("OK2", VBool(TRUE)), W("M", VBool(FALSE)), W("OK3", VBool(TRUE)), W("NEED", VBool(FALSE)), W("ERR", VBool(FALSE)), W("T.count()", VInt(Len(row)))>>]

\* other separator / quote choices (given as code points too; a NUL, a tab, an apostrophe), on a reduced set of rows
Formats2 == << "0, 34", "44, 0", "9, 39", "\"|\"", "\";'\"", "59, 34", "32, 34" >>
Rows2 == {<<f>> : f \in Fields \ {<<>>}} \cup {<<f, g>> : f \in FWords(1), g \in FWords(1)} \cup {<<<<2, 4>>, <<>>, <<5, 1>>>>, <<<<7>>, <<4, 2>>, <<1, 1>>>>}

\* readln: lines of every length around the module's buffer size come back as they were written
LineLens == <<0, 1, 10, 4094, 4095, 4096, 4097, 8191, 8192, 8193, 9000>>
ReadlnScript ==
  "function REP(N) return string is begin S = \"\"; C = \"0123456789abcdef\"; while S.count() + 16 <= N loop S.concat(C); end loop; while S.count() < N loop S.concat(\"x\"); end loop; return S; end;\n"
  \o "F = file(\"@TMP@/vlines.dat\", \"w+\"); LENS = tab(0, 0);"
  \o (LET J[i \in 0..Len(LineLens)] == IF i = 0 THEN "" ELSE J[i - 1] \o " LENS.concat(" \o ToString(LineLens[i]) \o ");" IN J[Len(LineLens)])
  \o "\nforall N in LENS loop W = F.write(REP(N) + \"\\n\"); end loop; P = F.seekset(0);\n"
  \* (a line longer than the module's buffer is delivered in pieces: they are put together until one ends the line)
  \o "OKL = true; NL = 0; forall N in LENS loop ACC = \"\"; MORE = true; while MORE loop L = str(); R = F.readln(L); if R then ACC.concat(L); end if; "
  \o "MORE = R and (L.count() == 0 or L.at(L.count() - 1) != 10); end loop; WANT = REP(N) + \"\\n\"; if ACC != WANT then OKL = false; else NL = NL + 1; end if; end loop;\n"
  \o "L = str(); REOF = F.readln(L); ENDPOS = F.position(); CL = F.close();"
ReadlnScenario ==
  [prop |-> "C18", key |-> "readln",
   steps |-> Begin0("file") \o <<Ex(ReadlnScript), W("OKL", VBool(TRUE)), W("NL", VInt(Len(LineLens))), W("REOF", VBool(FALSE)),
                                 W("ENDPOS", VInt((LET S[i \in 0..Len(LineLens)] == IF i = 0 THEN 0 ELSE S[i - 1] + LineLens[i] + 1 IN S[Len(LineLens)])))>>]

(* ---------------------------------- file ------------------------------- *)
\* operations: [k, text of the call, argument]; every operation first re-positions with seekcur(0), as C streams require
\* between reading and writing
FOps == << [k |-> "write", t |-> "F.write(\"abc\")", d |-> <<97, 98, 99>>], [k |-> "write", t |-> "F.write(raw(2, 0).concat(255).concat(10))", d |-> <<0, 0, 255, 10>>],
           [k |-> "write", t |-> "F.write(\"\")", d |-> <<>>],
           [k |-> "seekset", t |-> "F.seekset(0)", n |-> 0], [k |-> "seekset", t |-> "F.seekset(2)", n |-> 2], [k |-> "seekset", t |-> "F.seekset(6)", n |-> 6], [k |-> "seekset", t |-> "F.seekset((-1))", n |-> -1],
           [k |-> "seekcur", t |-> "F.seekcur((-1))", n |-> -1], [k |-> "seekcur", t |-> "F.seekcur(2)", n |-> 2],
           [k |-> "seekend", t |-> "F.seekend(0)", n |-> 0], [k |-> "seekend", t |-> "F.seekend((-2))", n |-> -2], [k |-> "seekend", t |-> "F.seekend(3)", n |-> 3],
           [k |-> "read", t |-> "F.read(B, 2)", n |-> 2], [k |-> "read", t |-> "F.read(B, 100)", n |-> 100], [k |-> "read", t |-> "F.read(B, 0)", n |-> 0] >>
RECURSIVE FSeqs(_)
FSeqs(n) == IF n = 0 THEN {<<>>} ELSE {<<>>} \cup {Append(h, c) : h \in FSeqs(n - 1), c \in DOMAIN FOps}
FApply(f, o) == CASE o.k = "write" -> MF!Write(f, o.d) [] o.k = "seekset" -> MF!SeekSet(f, o.n) [] o.k = "seekcur" -> MF!SeekCur(f, o.n)
                  [] o.k = "seekend" -> MF!SeekEnd(f, o.n) [] o.k = "read" -> MF!Read(f, o.n)
FSteps(h) ==
  LET St[i \in 0..Len(h)] == IF i = 0 THEN MF!F0 ELSE FApply(St[i - 1], FOps[h[i]])
      One(i) == LET o == FOps[h[i]]  before == St[i - 1]  after == St[i] IN
                <<Ex("F.seekcur(0);")>> \o
                (IF o.k = "write" THEN <<W(o.t, VInt(Len(o.d)))>>
                 ELSE IF o.k = "read" THEN <<Ex("B = raw();"), W(o.t, VInt(Len(MF!ReadData(before, o.n)))), W("B", IF MF!ReadData(before, o.n) = <<>> THEN [t |-> "rawornull", b |-> <<>>] ELSE VRaw(MF!ReadData(before, o.n)))>>
                 ELSE <<Step(o.t)>>)
                \o <<W("F.position()", VInt(after.pos))>>
      All[i \in 0..Len(h)] == IF i = 0 THEN <<>> ELSE All[i - 1] \o One(i)
  IN [steps |-> All[Len(h)], final |-> St[Len(h)]]
FScenario(h, mode) ==
  LET r == FSteps(h) IN
  [prop |-> "C18", key |-> "file",
   steps |-> Begin0("file") \o <<Ex("F = file(\"@TMP@/vfile.dat\", \"" \o mode \o "\");"), W("F.isopen()", VBool(TRUE))>> \o r.steps
             \o <<W("F.close()", VBool(TRUE)), [op |-> "readfile", ctx |-> 0, path |-> "@TMP@/vfile.dat", want |-> r.final.bytes]>>]

(* --------------------------------- sqlite3 ------------------------------ *)
\* bound values: [x |-> BLOC expression, v |-> the value, n |-> is it a null]
QV == << [x |-> "0", v |-> VInt(0)], [x |-> "(-1)", v |-> VInt(-1)], [x |-> "123456789", v |-> VInt(123456789)],
         [x |-> "2.5", v |-> VDec(5)], [x |-> "(-0.5)", v |-> VDec(-1)], [x |-> "\"\"", v |-> VStr("")], [x |-> "\"a'b\"", v |-> VStr("a'b")],
         [x |-> "\"x\\\"y; drop\"", v |-> VStr("x\"y; drop")], [x |-> "raw(1, 65).concat(0).concat(255)", v |-> VRaw(<<65, 0, 255>>)], [x |-> "raw(0, 0)", v |-> VRaw(<<>>)],
         [x |-> "int()", v |-> [t |-> "null"]], [x |-> "str()", v |-> [t |-> "null"]], [x |-> "num()", v |-> [t |-> "null"]], [x |-> "raw()", v |-> [t |-> "null"]] >>
QScenario(a, b) ==
  LET row == <<QV[a], QV[b], QV[3], QV[7], QV[9]>>
      tupx == "tup(" \o row[1].x \o ", " \o row[2].x \o ", " \o row[3].x \o ", " \o row[4].x \o ", " \o row[5].x \o ")"
      row2 == <<QV[b], QV[a], QV[12], QV[3], QV[11]>>
      tupy == "tup(" \o row2[1].x \o ", " \o row2[2].x \o ", " \o row2[3].x \o ", " \o row2[4].x \o ", " \o row2[5].x \o ")"
      chk(i) == IF row[i].v.t = "null" THEN W("isnull(R.at(0)@" \o ToString(i) \o ")", VBool(TRUE))
                ELSE IF row[i].v.t = "raw" /\ row[i].v.b = <<>> THEN W("R.at(0)@" \o ToString(i), [t |-> "rawornull", b |-> <<>>])
                ELSE W("R.at(0)@" \o ToString(i), row[i].v)
  IN [prop |-> "C18", key |-> "sqlite3",
      steps |-> Begin0("sqlite3") \o
        << Ex("DB = sqlite3(\"@TMP@/v.db\");"), W("DB.isopen()", VBool(TRUE)), W("DB.exec(\"create table t (a, b, c, d, e)\")", VBool(TRUE)),
           W("DB.exec(\"insert into t values (:1, :2, :3, :4, :5)\", " \o tupx \o ")", VBool(TRUE)),
           Ex("R = DB.query(\"select a, b, c, d, e from t\");"), W("R.count()", VInt(1)), chk(1), chk(2), chk(3), chk(4), chk(5),
           \* the same through a prepared statement and a bound query
           Ex("R2 = DB.query(\"select count(*) from t where c = :1 and d = :2\", tup(" \o row[3].x \o ", " \o row[4].x \o "));"), W("R2.at(0)@1", VInt(1)),
           \* a prepared statement re-used: bound and executed twice; the second row swaps the values and has a null
           \* where the first row had a value
           W("DB.prepare(\"insert into t values (:1, :2, :3, :4, :5)\")", VBool(TRUE)),
           W("DB.bind(" \o tupx \o ")", VBool(TRUE)), W("DB.execute()", VBool(TRUE)),
           W("DB.bind(" \o tupy \o ")", VBool(TRUE)), W("DB.execute()", VBool(TRUE)),
           W("DB.finalize()", VBool(TRUE)),
           W("DB.close()", VBool(TRUE)),
           [op |-> "sqlitedump", ctx |-> 0, path |-> "@TMP@/v.db", sql |-> "select a, b, c, d, e from t order by rowid",
            want |-> << <<row[1].v, row[2].v, row[3].v, row[4].v, row[5].v>>, <<row[1].v, row[2].v, row[3].v, row[4].v, row[5].v>>,
                        <<row2[1].v, row2[2].v, row2[3].v, row2[4].v, row2[5].v>> >>] >>]

VARIABLE p
Thorough == Env("VERIF_TIER", "quick") = "thorough"
Init == p \in {[k |-> "Q", a |-> a, b |-> b] : a \in DOMAIN QV, b \in DOMAIN QV} \cup {[k |-> "F", h |-> h, m |-> m] : h \in FSeqs(IF Thorough THEN 4 ELSE 3), m \in {"w+", "wb+"}} \cup {[k |-> "C", r |-> r, f |-> f] : r \in Rows, f \in {"\",\"", "\";\""}}
              \cup {[k |-> "C", r |-> r, f |-> Formats2[f]] : r \in (IF Thorough THEN Rows ELSE Rows2), f \in DOMAIN Formats2} \cup {[k |-> "RL"]} \cup {[k |-> "U", w |-> w] : w \in Words(IF Thorough THEN 4 ELSE 3, Len(Chars))} \cup {[k |-> "UB", w |-> w] : w \in {x \in Words(IF Thorough THEN 3 ELSE 2, Len(Chars) + Len(BadChars)) : \E j \in DOMAIN x : x[j] > Len(Chars)}}
Next == UNCHANGED p
Emit == PrintT("@@S " \o ToJson(IF p.k = "RL" THEN ReadlnScenario ELSE IF p.k = "U" THEN UScenario(p.w) ELSE IF p.k = "C" THEN CScenario(p.r, p.f) ELSE IF p.k = "F" THEN FScenario(p.h, p.m) ELSE IF p.k = "Q" THEN QScenario(p.a, p.b) ELSE UBadScenario(p.w)))
=============================================================================
