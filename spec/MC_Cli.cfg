SPECIFICATION Spec
INVARIANT TypeOK
INVARIANT ClearLeavesNothing
INVARIANT PoolSelfContained
INVARIANT FilesSelfContained
INVARIANT DeclaredCovers
PROPERTY PoolStep
PROPERTY FileStep
CONSTRAINT Bounded
CHECK_DEADLOCK FALSE
