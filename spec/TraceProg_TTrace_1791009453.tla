---- MODULE TraceProg_TTrace_1791009453 ----
EXTENDS Sequences, TLCExt, TraceProg, Toolbox, Naturals, TLC

_expression ==
    LET TraceProg_TEExpression == INSTANCE TraceProg_TEExpression
    IN TraceProg_TEExpression!expression
----

_trace ==
    LET TraceProg_TETrace == INSTANCE TraceProg_TETrace
    IN TraceProg_TETrace!trace
----

_inv ==
    ~(
        TLCGet("level") = Len(_TETrace)
        /\
        C = ((0 :> [vars |-> ("T" :> [v |-> <<[v |-> 1, t |-> "int"], [v |-> 1, t |-> "int"]>>, t |-> "tab", ty |-> [m |-> "int", d |-> <<>>, l |-> 1]] @@ "A" :> [v |-> "s", t |-> "str"] @@ "$S" :> [v |-> 5, t |-> "int"] @@ "U" :> [v |-> <<[v |-> 1, t |-> "int"], [v |-> "a", t |-> "str"]>>, t |-> "tup", ty |-> [m |-> "row", d |-> <<"int", "str">>, l |-> 0]]), sig |-> "", err |-> [kind |-> "", name |-> ""], out |-> "", rv |-> [t |-> "null", ty |-> [m |-> "undef", d |-> <<>>, l |-> 0]], hasrv |-> FALSE, cerr |-> [kind |-> "", name |-> ""], depth |-> 0, inloop |-> 0, locked |-> {}, unk |-> FALSE, funcs |-> <<[n |-> "F", ps |-> <<"X">>, b |-> <<[k |-> "return", e |-> [k |-> "bin", op |-> "+", b |-> [k |-> "lit", v |-> [v |-> 1, t |-> "int"]], a |-> [k |-> "var", n |-> "X"]]]>>], [n |-> "G", ps |-> <<"X">>, b |-> <<[k |-> "return", e |-> [k |-> "bin", op |-> "*", b |-> [k |-> "lit", v |-> [v |-> 2, t |-> "int"]], a |-> [k |-> "var", n |-> "X"]]]>>], [n |-> "G", ps |-> <<"X", "Y">>, b |-> <<[k |-> "return", e |-> [k |-> "bin", op |-> "-", b |-> [k |-> "var", n |-> "Y"], a |-> [k |-> "var", n |-> "X"]]]>>]>>]))
        /\
        verdict = ("the specification completes, the run reported parse_error ")
        /\
        i = (1024)
        /\
        k = (3)
    )
----

_init ==
    /\ C = _TETrace[1].C
    /\ i = _TETrace[1].i
    /\ k = _TETrace[1].k
    /\ verdict = _TETrace[1].verdict
----

_next ==
    /\ \E i,j \in DOMAIN _TETrace:
        /\ \/ /\ j = i + 1
              /\ i = TLCGet("level")
        /\ C  = _TETrace[i].C
        /\ C' = _TETrace[j].C
        /\ i  = _TETrace[i].i
        /\ i' = _TETrace[j].i
        /\ k  = _TETrace[i].k
        /\ k' = _TETrace[j].k
        /\ verdict  = _TETrace[i].verdict
        /\ verdict' = _TETrace[j].verdict

\* Uncomment the ASSUME below to write the states of the error trace
\* to the given file in Json format. Note that you can pass any tuple
\* to `JsonSerialize`. For example, a sub-sequence of _TETrace.
    \* ASSUME
    \*     LET J == INSTANCE Json
    \*         IN J!JsonSerialize("TraceProg_TTrace_1791009453.json", _TETrace)

=============================================================================

 Note that you can extract this module `TraceProg_TEExpression`
  to a dedicated file to reuse `expression` (the module in the 
  dedicated `TraceProg_TEExpression.tla` file takes precedence 
  over the module `TraceProg_TEExpression` below).

---- MODULE TraceProg_TEExpression ----
EXTENDS Sequences, TLCExt, TraceProg, Toolbox, Naturals, TLC

expression == 
    [
        \* To hide variables of the `TraceProg` spec from the error trace,
        \* remove the variables below.  The trace will be written in the order
        \* of the fields of this record.
        C |-> C
        ,i |-> i
        ,k |-> k
        ,verdict |-> verdict
        
        \* Put additional constant-, state-, and action-level expressions here:
        \* ,_stateNumber |-> _TEPosition
        \* ,_CUnchanged |-> C = C'
        
        \* Format the `C` variable as Json value.
        \* ,_CJson |->
        \*     LET J == INSTANCE Json
        \*     IN J!ToJson(C)
        
        \* Lastly, you may build expressions over arbitrary sets of states by
        \* leveraging the _TETrace operator.  For example, this is how to
        \* count the number of times a spec variable changed up to the current
        \* state in the trace.
        \* ,_CModCount |->
        \*     LET F[s \in DOMAIN _TETrace] ==
        \*         IF s = 1 THEN 0
        \*         ELSE IF _TETrace[s].C # _TETrace[s-1].C
        \*             THEN 1 + F[s-1] ELSE F[s-1]
        \*     IN F[_TEPosition - 1]
    ]

=============================================================================



Parsing and semantic processing can take forever if the trace below is long.
 In this case, it is advised to uncomment the module below to deserialize the
 trace from a generated binary file.

\*
\*---- MODULE TraceProg_TETrace ----
\*EXTENDS IOUtils, TraceProg, TLC
\*
\*trace == IODeserialize("TraceProg_TTrace_1791009453.bin", TRUE)
\*
\*=============================================================================
\*

---- MODULE TraceProg_TETrace ----
EXTENDS TraceProg, TLC

trace == 
    <<
    ([C |-> <<>>,verdict |-> "",i |-> 1024,k |-> 0]),
    ([C |-> (0 :> [vars |-> ("T" :> [v |-> <<[v |-> 1, t |-> "int"], [v |-> 1, t |-> "int"]>>, t |-> "tab", ty |-> [m |-> "int", d |-> <<>>, l |-> 1]] @@ "A" :> [v |-> 1, t |-> "int"] @@ "$S" :> [v |-> 5, t |-> "int"] @@ "U" :> [v |-> <<[v |-> 1, t |-> "int"], [v |-> "a", t |-> "str"]>>, t |-> "tup", ty |-> [m |-> "row", d |-> <<"int", "str">>, l |-> 0]]), sig |-> "", err |-> [kind |-> "", name |-> ""], out |-> "", rv |-> [t |-> "null", ty |-> [m |-> "undef", d |-> <<>>, l |-> 0]], hasrv |-> FALSE, cerr |-> [kind |-> "", name |-> ""], depth |-> 0, inloop |-> 0, locked |-> {}, unk |-> FALSE, funcs |-> <<[n |-> "F", ps |-> <<"X">>, b |-> <<[k |-> "return", e |-> [k |-> "bin", op |-> "+", b |-> [k |-> "lit", v |-> [v |-> 1, t |-> "int"]], a |-> [k |-> "var", n |-> "X"]]]>>], [n |-> "G", ps |-> <<"X">>, b |-> <<[k |-> "return", e |-> [k |-> "bin", op |-> "*", b |-> [k |-> "lit", v |-> [v |-> 2, t |-> "int"]], a |-> [k |-> "var", n |-> "X"]]]>>], [n |-> "G", ps |-> <<"X", "Y">>, b |-> <<[k |-> "return", e |-> [k |-> "bin", op |-> "-", b |-> [k |-> "var", n |-> "Y"], a |-> [k |-> "var", n |-> "X"]]]>>]>>]),verdict |-> "",i |-> 1024,k |-> 1]),
    ([C |-> (0 :> [vars |-> ("T" :> [v |-> <<[v |-> 1, t |-> "int"], [v |-> 1, t |-> "int"]>>, t |-> "tab", ty |-> [m |-> "int", d |-> <<>>, l |-> 1]] @@ "A" :> [v |-> 1, t |-> "int"] @@ "$S" :> [v |-> 5, t |-> "int"] @@ "U" :> [v |-> <<[v |-> 1, t |-> "int"], [v |-> "a", t |-> "str"]>>, t |-> "tup", ty |-> [m |-> "row", d |-> <<"int", "str">>, l |-> 0]]), sig |-> "", err |-> [kind |-> "", name |-> ""], out |-> "", rv |-> [t |-> "null", ty |-> [m |-> "undef", d |-> <<>>, l |-> 0]], hasrv |-> FALSE, cerr |-> [kind |-> "", name |-> ""], depth |-> 0, inloop |-> 0, locked |-> {}, unk |-> FALSE, funcs |-> <<[n |-> "F", ps |-> <<"X">>, b |-> <<[k |-> "return", e |-> [k |-> "bin", op |-> "+", b |-> [k |-> "lit", v |-> [v |-> 1, t |-> "int"]], a |-> [k |-> "var", n |-> "X"]]]>>], [n |-> "G", ps |-> <<"X">>, b |-> <<[k |-> "return", e |-> [k |-> "bin", op |-> "*", b |-> [k |-> "lit", v |-> [v |-> 2, t |-> "int"]], a |-> [k |-> "var", n |-> "X"]]]>>], [n |-> "G", ps |-> <<"X", "Y">>, b |-> <<[k |-> "return", e |-> [k |-> "bin", op |-> "-", b |-> [k |-> "var", n |-> "Y"], a |-> [k |-> "var", n |-> "X"]]]>>]>>]),verdict |-> "",i |-> 1024,k |-> 2]),
    ([C |-> (0 :> [vars |-> ("T" :> [v |-> <<[v |-> 1, t |-> "int"], [v |-> 1, t |-> "int"]>>, t |-> "tab", ty |-> [m |-> "int", d |-> <<>>, l |-> 1]] @@ "A" :> [v |-> "s", t |-> "str"] @@ "$S" :> [v |-> 5, t |-> "int"] @@ "U" :> [v |-> <<[v |-> 1, t |-> "int"], [v |-> "a", t |-> "str"]>>, t |-> "tup", ty |-> [m |-> "row", d |-> <<"int", "str">>, l |-> 0]]), sig |-> "", err |-> [kind |-> "", name |-> ""], out |-> "", rv |-> [t |-> "null", ty |-> [m |-> "undef", d |-> <<>>, l |-> 0]], hasrv |-> FALSE, cerr |-> [kind |-> "", name |-> ""], depth |-> 0, inloop |-> 0, locked |-> {}, unk |-> FALSE, funcs |-> <<[n |-> "F", ps |-> <<"X">>, b |-> <<[k |-> "return", e |-> [k |-> "bin", op |-> "+", b |-> [k |-> "lit", v |-> [v |-> 1, t |-> "int"]], a |-> [k |-> "var", n |-> "X"]]]>>], [n |-> "G", ps |-> <<"X">>, b |-> <<[k |-> "return", e |-> [k |-> "bin", op |-> "*", b |-> [k |-> "lit", v |-> [v |-> 2, t |-> "int"]], a |-> [k |-> "var", n |-> "X"]]]>>], [n |-> "G", ps |-> <<"X", "Y">>, b |-> <<[k |-> "return", e |-> [k |-> "bin", op |-> "-", b |-> [k |-> "var", n |-> "Y"], a |-> [k |-> "var", n |-> "X"]]]>>]>>]),verdict |-> "the specification completes, the run reported parse_error ",i |-> 1024,k |-> 3])
    >>
----


=============================================================================

---- CONFIG TraceProg_TTrace_1791009453 ----

INVARIANT
    _inv

CHECK_DEADLOCK
    \* CHECK_DEADLOCK off because of PROPERTY or INVARIANT above.
    FALSE

INIT
    _init

NEXT
    _next

CONSTANT
    _TETrace <- _trace

ALIAS
    _expression
=============================================================================
\* Generated on Sat Oct 03 06:37:38 UTC 2026