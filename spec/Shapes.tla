------------------------------- MODULE Shapes -------------------------------
(***************************************************************************)
(* Nesting shapes shared by the C06 / C07 generators: a leaf statement list *)
(* at the bottom of every nesting of begin/handler-set, for, forall,       *)
(* while, if and function call up to a given depth.                        *)
(***************************************************************************)
EXTENDS Bloc, Json, IOUtils

Env(n, d) == IF n \in DOMAIN IOEnv THEN IOEnv[n] ELSE d
Depth  == atoi(Env("GEN_DEPTH", "2"))
Sample == atoi(Env("GEN_SAMPLE", "1"))       \* keep 1 of Sample shapes at the deepest level
Seed   == atoi(Env("VERIF_SEED", "1"))

P(s) == PrintS(<<Str(s)>>)
Sfx(d) == ToString(d)

HandlerSets == << <<>>, <<"E1">>, <<"E2">>, <<"DIVIDE_BY_ZERO">>, <<"OUT_OF_RANGE">>, <<"OTHERS">>,
                  <<"E2", "OTHERS">>, <<"E1", "DIVIDE_BY_ZERO">> >>
Handlers(hs, d) == [j \in DOMAIN hs |-> When(hs[j], <<PrintS(<<Str("h" \o Sfx(d) \o ":"), Item(Call("error", <<>>), 1)>>)>>)]

\* the failing (or not failing) leaf
Leaves == <<
  <<Nop>>,
  <<RaiseS("E1")>>,
  <<Let("X", Bin("/", I(1), I(0)))>>,
  <<RaiseS("OUT_OF_RANGE")>>,
  <<Let("X", Mem(Call("tab", <<I(1), I(1)>>), "at", <<I(5)>>))>>,
  <<While(Bin(">", Bin("/", I(1), I(0)), I(0)), <<Nop>>)>>,
  <<For("Q", Bin("/", I(1), I(0)), I(2), NoExpr, "auto", <<Nop>>)>>,
  <<If(Bin(">", Bin("/", I(1), I(0)), I(0)), <<Nop>>, <<>>)>>,
  <<For("Q", I(1), I(2), I(0), "auto", <<Nop>>)>>,
  <<Let("X", UCall("FDIV", <<I(0)>>))>>,
  \* the condition fails on the evaluation right after a `continue`
  <<Let("KK", I(0)), While(Bin(">", Bin("/", I(10), Bin("-", I(2), V("KK"))), I(0)), <<Let("KK", Bin("+", V("KK"), I(1))), Continue>>)>>,
  \* a handler that itself raises / fails
  <<Begin(<<RaiseS("E1")>>, <<When("E1", <<P("hr"), RaiseS("E2")>>)>>)>>,
  <<Begin(<<RaiseS("E1")>>, <<When("OTHERS", <<P("hd"), Let("X", Bin("/", I(1), I(0)))>>)>>)>>
>>
NWrap == Len(HandlerSets) + 5

\* wrap the statement list h (with function definitions defs) at depth d with wrapper kind w
Wrap(w, d, x) ==
  LET h == x.body  s == Sfx(d) IN
  IF w <= Len(HandlerSets) THEN
       [defs |-> x.defs, body |-> <<Begin(<<P("b" \o s)>> \o h \o <<P("e" \o s)>>, Handlers(HandlerSets[w], d))>>]
  ELSE IF w = Len(HandlerSets) + 1 THEN
       [defs |-> x.defs, body |-> <<For("I" \o s, I(1), I(2), NoExpr, "auto", <<P("f" \o s)>> \o h \o <<P("g" \o s)>>)>>]
  ELSE IF w = Len(HandlerSets) + 2 THEN
       [defs |-> x.defs, body |-> <<Let("L" \o s, Call("tab", <<I(2), I(7)>>)),
                                    Forall("E" \o s, V("L" \o s), "auto", <<P("a" \o s)>> \o h \o <<P("z" \o s)>>)>>]
  ELSE IF w = Len(HandlerSets) + 3 THEN
       [defs |-> x.defs, body |-> <<Let("K" \o s, I(0)),
                                    While(Bin("<", V("K" \o s), I(2)), <<Let("K" \o s, Bin("+", V("K" \o s), I(1))), P("w" \o s)>> \o h)>>]
  ELSE IF w = Len(HandlerSets) + 4 THEN
       [defs |-> x.defs, body |-> <<If(B(TRUE), <<P("i" \o s)>> \o h, <<P("no")>>)>>]
  ELSE [defs |-> x.defs \o <<Func("G" \o s, <<>>, <<P("c" \o s)>> \o h \o <<Return(I(d))>>)>>,
        body |-> <<PrintS(<<UCall("G" \o s, <<>>)>>)>>]

RECURSIVE ShapesOf(_, _)
\* all nestings with exactly d wrappers (outermost wrapper has index d) around the given leaves
ShapesOf(d, leaves) ==
  IF d = 0 THEN {[defs |-> <<>>, body |-> leaves[l]] : l \in DOMAIN leaves}
  ELSE {Wrap(w, d, x) : w \in 1..NWrap, x \in ShapesOf(d - 1, leaves)}
Shapes(d) == ShapesOf(d, Leaves)

=============================================================================
