SPECIFICATION Spec
CONSTANTS Fns = {"f", "g"}
          Limit = 4
          MaxCtx = 5
          Dev = {"no_depth_stamp"}
INVARIANT BodyStartsClean
INVARIANT NoContextLost
INVARIANT LimitIsExact
CHECK_DEADLOCK FALSE
