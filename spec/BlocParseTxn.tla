---------------------------- MODULE BlocParseTxn ----------------------------
(***************************************************************************)
(* Implementation-shaped model of what a compilation unit (Parser::parse,  *)
(* Parser::parseStatement) changes while it is being parsed, and of how a  *)
(* rejected unit is undone:                                                *)
(*   sym     compile-time type of every variable name ("none" = unknown);  *)
(*           assignments re-type a name while parsing (Context::           *)
(*           registerSymbol), the previous symbol goes to the undo log     *)
(*           `undo` (_backed_symbols), Context::parsingEnd restores it     *)
(*   decls   the function table in declaration order; a declaration takes  *)
(*           effect when its header has been parsed (createOrReplace): the *)
(*           entry holds the new, still body-less functor (body 0) while   *)
(*           the body is parsed, the replaced one waits in `backed`        *)
(*           (FunctorManager::_backed); a failing body calls rollback()    *)
(*   unit    journal of the declarations made by the unit in progress      *)
(*           (FunctorManager::_unit), undone by unitAbort when the unit is *)
(*           rejected                                                      *)
(* Property (C11): after a rejected unit every name and function that      *)
(* existed before it is exactly as it was, and no body-less function       *)
(* remains callable.  Dev re-enables, one at a time, what defective        *)
(* variants do; each has a counterexample (MC_C11_dev_*.cfg).              *)
(***************************************************************************)
EXTENDS Integers, Sequences, FiniteSets, TLC

CONSTANTS Names, Types, FNames, Bodies, MaxUnits,
          Dev   \* subset of {"restore_last_only",   rollback() puts the backup into the LAST declared entry (pinned tree D06, seeded C01-1)
                \*            "no_unit_journal",     complete declarations of a rejected unit stay in force (pinned tree D23)
                \*            "stale_backed",        createOrReplace forgets to drop an older backup when it creates a new entry (seeded C15-2)
                \*            "restore_forward"}     the undo log of symbol types is replayed oldest first (seeded C11-2 class)

NoF == [name |-> "", body |-> -1]
VARIABLES sym, undo, decls, backed, unit, phase, cur, snapSym, snapDecls, nunits, rejected
vars == <<sym, undo, decls, backed, unit, phase, cur, snapSym, snapDecls, nunits, rejected>>

Init == /\ sym = [n \in Names |-> "none"] /\ undo = <<>> /\ decls = <<>> /\ backed = NoF /\ unit = <<>>
        /\ phase = "idle" /\ cur = [name |-> "", body |-> 0] /\ snapSym = sym /\ snapDecls = decls /\ nunits = 0 /\ rejected = FALSE

IdxOf(ds, f) == LET s == {j \in DOMAIN ds : ds[j].name = f} IN IF s = {} THEN 0 ELSE CHOOSE j \in s : TRUE

\* a compilation unit starts
Begin == /\ phase = "idle" /\ nunits < MaxUnits
         /\ phase' = "unit" /\ snapSym' = sym /\ snapDecls' = decls /\ undo' = <<>> /\ unit' = <<>> /\ nunits' = nunits + 1 /\ rejected' = FALSE
         /\ UNCHANGED <<sym, decls, backed, cur>>

\* an assignment (re)types a name while the unit is parsed
Retype(n, t) == /\ phase = "unit" /\ sym[n] # t
                /\ sym' = [sym EXCEPT ![n] = t]
                /\ undo' = IF sym[n] = "none" THEN undo ELSE Append(undo, [n |-> n, t |-> sym[n]])
                /\ UNCHANGED <<decls, backed, unit, phase, cur, snapSym, snapDecls, nunits, rejected>>

\* `function f ... is begin`: createOrReplace + swap in the new body-less functor
DeclStart(f, b) ==
  /\ phase = "unit"
  /\ LET j == IdxOf(decls, f) IN
     IF j # 0
     THEN /\ backed' = decls[j]
          /\ decls' = [decls EXCEPT ![j] = [name |-> f, body |-> 0]]
          /\ unit' = Append(unit, [name |-> f, prev |-> decls[j].body])
     ELSE /\ backed' = IF "stale_backed" \in Dev THEN backed ELSE NoF
          /\ decls' = Append(decls, [name |-> f, body |-> 0])
          /\ unit' = Append(unit, [name |-> f, prev |-> -1])
  /\ phase' = "infunc" /\ cur' = [name |-> f, body |-> b]
  /\ UNCHANGED <<sym, undo, snapSym, snapDecls, nunits, rejected>>

\* the body parsed: the declaration is complete
DeclOk == /\ phase = "infunc"
          /\ decls' = [decls EXCEPT ![IdxOf(decls, cur.name)].body = cur.body]
          /\ phase' = "unit"
          /\ UNCHANGED <<sym, undo, backed, unit, cur, snapSym, snapDecls, nunits, rejected>>

\* FunctorManager::rollback (statement level): the declaration being parsed is withdrawn
Rollback(ds, bk, un) ==
  LET un2 == SubSeq(un, 1, Len(un) - 1) IN
  IF bk # NoF
  THEN LET j == IF "restore_last_only" \in Dev THEN Len(ds) ELSE IdxOf(ds, bk.name) IN
       [decls |-> IF j = 0 THEN ds ELSE [ds EXCEPT ![j] = bk], backed |-> ds[IF j = 0 THEN 1 ELSE j], unit |-> un2]
  ELSE [decls |-> SubSeq(ds, 1, Len(ds) - 1), backed |-> NoF, unit |-> un2]

\* Context::parsingEnd: the symbols re-typed by the unit get their previous type back
RECURSIVE Restore(_, _)
Restore(s, u) == IF u = <<>> THEN s
                 ELSE IF "restore_forward" \in Dev THEN Restore([s EXCEPT ![Head(u).n] = Head(u).t], Tail(u))
                 ELSE Restore([s EXCEPT ![u[Len(u)].n] = u[Len(u)].t], SubSeq(u, 1, Len(u) - 1))
\* FunctorManager::unitAbort: the declarations of the unit are undone, latest first
RECURSIVE Abort(_, _)
Abort(ds, un) == IF un = <<>> THEN ds
                 ELSE LET c == un[Len(un)]  j == IdxOf(ds, c.name) IN
                      Abort(IF c.prev >= 0 THEN (IF j = 0 THEN ds ELSE [ds EXCEPT ![j].body = c.prev]) ELSE SubSeq(ds, 1, Len(ds) - 1),
                            SubSeq(un, 1, Len(un) - 1))

\* the unit is rejected: in a function body (rollback first) or elsewhere
Reject ==
  /\ phase \in {"unit", "infunc"}
  /\ LET r == IF phase = "infunc" THEN Rollback(decls, backed, unit) ELSE [decls |-> decls, backed |-> backed, unit |-> unit] IN
     /\ decls' = IF "no_unit_journal" \in Dev THEN r.decls ELSE Abort(r.decls, r.unit)
     /\ backed' = IF "no_unit_journal" \in Dev THEN r.backed ELSE NoF
  /\ sym' = Restore(sym, undo) /\ undo' = <<>> /\ unit' = <<>>
  /\ phase' = "idle" /\ rejected' = TRUE
  /\ UNCHANGED <<cur, snapSym, snapDecls, nunits>>

\* the unit is accepted: its changes stay
Accept == /\ phase = "unit" /\ phase' = "idle" /\ undo' = <<>> /\ unit' = <<>> /\ rejected' = FALSE
          /\ UNCHANGED <<sym, decls, backed, cur, snapSym, snapDecls, nunits>>

Next == \/ Begin \/ Reject \/ Accept \/ DeclOk
        \/ \E n \in Names, t \in Types : Retype(n, t)
        \/ \E f \in FNames, b \in Bodies : DeclStart(f, b)
Spec == Init /\ [][Next]_vars

\* small bounds on what one unit does (the mechanisms need at most two changes of the same thing)
Bounded == Len(undo) <= 3 /\ Len(unit) <= 3 /\ Len(decls) <= Cardinality(FNames)

(* --------------------------------- C11 --------------------------------- *)
\* after a rejected unit, what existed before is as it was
RejectedLeavesNoTrace ==
  (phase = "idle" /\ rejected) =>
     /\ \A n \in Names : snapSym[n] # "none" => sym[n] = snapSym[n]
     /\ \A j \in DOMAIN snapDecls : \E q \in DOMAIN decls : decls[q] = snapDecls[j]
\* a function without body is never left callable
NoBodylessFunction == phase = "idle" => \A j \in DOMAIN decls : decls[j].body # 0
\* a function only the rejected unit mentioned is unknown afterwards (what C15 asks of bloc_parse_expression)
RejectedFunctionsUnknown ==
  (phase = "idle" /\ rejected) => \A j \in DOMAIN decls : \E q \in DOMAIN snapDecls : snapDecls[q].name = decls[j].name
=============================================================================
