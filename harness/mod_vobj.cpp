// libbloc_vobj: a verification-only BLOC module (lives in /verif, never installed).
// Every object creation, destruction and method execution is logged as an NDJSON event that the
// harness drains after each step.  Destroyed objects are kept in a graveyard (never freed, marked
// dead) so that a late use or a second destruction is observed as an event instead of a crash.
#include <blocc/plugin.h>
#include <blocc/context.h>
#include <blocc/value.h>
#include <blocc/complex.h>
#include <blocc/expression.h>
#include <blocc/exception_runtime.h>

#include <string>
#include <vector>
#include <cstdio>
#include <mutex>
#include <atomic>

namespace {
struct VObj { long id; std::atomic<long> tag; std::atomic<bool> live; VObj(long i, long t) : id(i), tag(t), live(true) { } };
long g_next = 0;
std::vector<VObj*> g_all;
std::string g_log;
std::mutex g_mu;          /* clones run on several threads and share the objects */

void ev(const std::string& s) { std::lock_guard<std::mutex> lk(g_mu); g_log += s; g_log += '\n'; }
std::string q(const std::string& s) {
  std::string o = "\"";
  for (unsigned char c : s) { if (c == '"' || c == '\\') { o += '\\'; o += (char)c; } else if (c < 0x20 || c >= 0x7f) { char b[8]; snprintf(b, sizeof b, "\\u%04x", c); o += b; } else o += (char)c; }
  return o + "\"";
}
std::string argJson(bloc::Value& v) {
  bloc::Value& d = v.deref_value();
  if (d.isNull()) return "{\"t\":\"null\"}";
  if (d.type().level() > 0) return "{\"t\":\"tab\"}";
  switch (d.type().major()) {
  case bloc::Type::INTEGER: return "{\"t\":\"int\",\"v\":" + std::to_string((long long)*d.integer()) + "}";
  case bloc::Type::NUMERIC: { double h = *d.numeric() * 2; return "{\"t\":\"dec\",\"h\":" + std::to_string((long long)h) + "}"; }
  case bloc::Type::LITERAL: return "{\"t\":\"str\",\"v\":" + q(*d.literal()) + "}";
  case bloc::Type::BOOLEAN: return std::string("{\"t\":\"bool\",\"v\":") + (*d.boolean() ? "true" : "false") + "}";
  case bloc::Type::COMPLEX: { VObj* o = static_cast<VObj*>(d.complex()->instance()); return "{\"t\":\"obj\",\"id\":" + std::to_string(o ? o->id : -1) + "}"; }
  default: return "{\"t\":\"other\"}";
  }
}
}

extern "C" const char* VOBJ_drain() {
  static std::string out;
  std::lock_guard<std::mutex> lk(g_mu);
  out.swap(g_log);
  g_log.clear();
  return out.c_str();
}
extern "C" long VOBJ_count() { return g_next; }

namespace bloc { namespace plugin {

class VObjPlugin : public PluginBase {
public:
  void declareInterface(PLUGIN_INTERFACE* interface) override;
  void* createObject(int ctor_id, bloc::Context& ctx, const std::vector<bloc::Expression*>& args) override;
  void destroyObject(void* object) override;
  bloc::Value* executeMethod(bloc::Complex& object_this, int method_id, bloc::Context& ctx,
                             const std::vector<bloc::Expression*>& args) override;
};

namespace vobj {
static PLUGIN_TYPE ctor_0_args[] = { { "I", 0 } };
static PLUGIN_TYPE ctor_1_args[] = { { "O", 0 } };
static PLUGIN_CTOR ctors[] = {
  { 0, 1, ctor_0_args, "vobj(tag)" },
  { 1, 1, ctor_1_args, "copy" },
};
enum Method { Id = 0, Tag, EchoI, EchoL, Sum, Self, SetTag, Other, Fail };
static PLUGIN_ARG int_args[] = { { PLUGIN_IN, { "I", 0 } } };
static PLUGIN_ARG str_args[] = { { PLUGIN_IN, { "L", 0 } } };
static PLUGIN_ARG sum_args[] = { { PLUGIN_IN, { "I", 0 } }, { PLUGIN_IN, { "N", 0 } } };
static PLUGIN_ARG obj_args[] = { { PLUGIN_IN, { "O", 0 } } };
static PLUGIN_METHOD methods[] = {
  { Id,     "id",     { "I", 0 }, 0, nullptr,  "identity" },
  { Tag,    "tag",    { "I", 0 }, 0, nullptr,  "tag" },
  { EchoI,  "echo",   { "I", 0 }, 1, int_args, "returns its integer argument" },
  { EchoL,  "echo",   { "L", 0 }, 1, str_args, "returns its string argument" },
  { Sum,    "sum",    { "N", 0 }, 2, sum_args, "integer + decimal" },
  { Self,   "self",   { "O", 0 }, 0, nullptr,  "returns itself" },
  { SetTag, "settag", { "O", 0 }, 1, int_args, "sets the tag, returns itself" },
  { Other,  "other",  { "I", 0 }, 1, obj_args, "identity of the argument object" },
  { Fail,   "fail",   { "I", 0 }, 0, nullptr,  "raises an error" },
};
}

void VObjPlugin::declareInterface(PLUGIN_INTERFACE* interface) {
  interface->name = "vobj";
  interface->method_count = sizeof(vobj::methods) / sizeof(PLUGIN_METHOD);
  interface->methods = vobj::methods;
  interface->ctors_count = sizeof(vobj::ctors) / sizeof(PLUGIN_CTOR);
  interface->ctors = vobj::ctors;
}

void* VObjPlugin::createObject(int ctor_id, bloc::Context& ctx, const std::vector<bloc::Expression*>& args) {
  long tag = 0;
  std::string a = "[]";
  if (ctor_id == 0) {
    bloc::Value& a0 = args[0]->value(ctx);
    a = "[" + argJson(a0) + "]";
    if (a0.isNull()) throw RuntimeError(EXC_RT_OTHER_S, "vobj: null tag");
    tag = (long)*a0.integer();
    if (tag == 666) throw RuntimeError(EXC_RT_OTHER_S, "vobj: constructor refused");
  } else if (ctor_id == 1) {
    bloc::Value& a0 = args[0]->value(ctx);
    a = "[" + argJson(a0) + "]";
    if (a0.isNull()) throw RuntimeError(EXC_RT_OTHER_S, "vobj: null source");
    VObj* src = static_cast<VObj*>(a0.complex()->instance());
    if (!src->live) ev("{\"e\":\"use_after_destroy\",\"id\":" + std::to_string(src->id) + "}");
    tag = src->tag + 1000;
  }
  VObj* o;
  { std::lock_guard<std::mutex> lk(g_mu); o = new VObj(++g_next, tag); g_all.push_back(o); }
  ev("{\"e\":\"create\",\"id\":" + std::to_string(o->id) + ",\"ctor\":" + std::to_string(ctor_id) + ",\"tag\":" + std::to_string(tag) + ",\"args\":" + a + "}");
  return o;
}

void VObjPlugin::destroyObject(void* object) {
  VObj* o = static_cast<VObj*>(object);
  ev("{\"e\":\"destroy\",\"id\":" + std::to_string(o->id) + ",\"was_live\":" + (o->live ? "true" : "false") + "}");
  o->live = false;   /* kept in the graveyard */
}

bloc::Value* VObjPlugin::executeMethod(bloc::Complex& object_this, int method_id, bloc::Context& ctx,
                                       const std::vector<bloc::Expression*>& args) {
  VObj* o = static_cast<VObj*>(object_this.instance());
  std::string a = "[";
  std::vector<bloc::Value*> vals;
  for (size_t i = 0; i < args.size(); ++i) { bloc::Value& v = args[i]->value(ctx); vals.push_back(&v); if (i) a += ','; a += argJson(v); }
  a += "]";
  ev("{\"e\":\"method\",\"id\":" + std::to_string(o->id) + ",\"name\":" + q(vobj::methods[method_id].name) + ",\"mid\":" + std::to_string(method_id) +
     ",\"args\":" + a + ",\"live\":" + (o->live ? "true" : "false") + "}");
  switch (method_id) {
  case vobj::Id: return new bloc::Value(bloc::Integer(o->id));
  case vobj::Tag: return new bloc::Value(bloc::Integer(o->tag));
  case vobj::EchoI: return vals[0]->isNull() ? new bloc::Value(bloc::Value::type_integer) : new bloc::Value(bloc::Integer(*vals[0]->integer()));
  case vobj::EchoL: return vals[0]->isNull() ? new bloc::Value(bloc::Value::type_literal) : new bloc::Value(new bloc::Literal(*vals[0]->literal()));
  case vobj::Sum:
    if (vals[0]->isNull() || vals[1]->isNull()) return new bloc::Value(bloc::Value::type_numeric);
    return new bloc::Value(bloc::Numeric((double)*vals[0]->integer() + *vals[1]->numeric()));
  case vobj::Self: return new bloc::Value(new bloc::Complex(object_this));
  case vobj::SetTag:
    if (!vals[0]->isNull()) o->tag = (long)*vals[0]->integer();
    return new bloc::Value(new bloc::Complex(object_this));
  case vobj::Other: {
    if (vals[0]->isNull()) return new bloc::Value(bloc::Value::type_integer);
    VObj* p = static_cast<VObj*>(vals[0]->complex()->instance());
    if (!p->live) ev("{\"e\":\"use_after_destroy\",\"id\":" + std::to_string(p->id) + "}");
    return new bloc::Value(bloc::Integer(p->id));
  }
  case vobj::Fail: throw RuntimeError(EXC_RT_OTHER_S, "vobj: fail");
  }
  return nullptr;
}

PLUGINCREATOR(VObjPlugin)

} }
