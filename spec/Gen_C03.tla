------------------------------ MODULE Gen_C03 ------------------------------
(***************************************************************************)
(* Scenario generator for C03: the 64-bit boundary lattice                 *)
(* {0, +-1, +-2, +-3, 2^k, 2^k +- 1, -(2^k), -(2^k) +- 1, MIN, MIN+1,      *)
(* MAX-1, MAX} crossed with itself for every binary integer operator,      *)
(* shift displacements -130..130 and huge ones, exponents 0..70 and more,  *)
(* null operands, int() over the boundary lattice of doubles, num() over   *)
(* the integer lattice, mixed integer/decimal operands.                    *)
(***************************************************************************)
EXTENDS Arith64, Json, IOUtils, SequencesExt, FiniteSets
Env(n, d) == IF n \in DOMAIN IOEnv THEN IOEnv[n] ELSE d
Thorough == Env("VERIF_TIER", "quick") = "thorough"

P(k) == I64!ShlBits(I64!One, k)
K == IF Thorough THEN 1..63 ELSE {2, 7, 8, 15, 16, 31, 32, 33, 52, 53, 62, 63}
Small == {I64!FromInt(n) : n \in -3..3}
Lattice == Small \cup {I64!MinInt, I64!Add(I64!MinInt, I64!One), I64!MaxInt, I64!Sub(I64!MaxInt, I64!One)}
           \cup UNION {{P(k), I64!Sub(P(k), I64!One), I64!Add(P(k), I64!One),
                        I64!Neg(P(k)), I64!Add(I64!Neg(P(k)), I64!One), I64!Sub(I64!Neg(P(k)), I64!One)} : k \in K}
Mid == Small \cup {I64!MinInt, I64!MaxInt, P(31), P(32), I64!Sub(P(32), I64!One), P(62), I64!Neg(P(33)), I64!FromInt(10), I64!FromInt(7), I64!FromInt(255)}

IntOp_(x) == [k |-> "i", b8 |-> x]
NullI == [k |-> "ni"]
NullD == [k |-> "nd"]
Nil   == [k |-> "n"]
Dec(s, m, e) == [k |-> "d", cls |-> "fin", s |-> s, m |-> m, e |-> e]

Disp == {I64!FromInt(d) : d \in -130..130} \cup {P(31), P(32), P(62), I64!MaxInt, I64!MinInt, I64!Neg(P(32)), I64!FromInt(1000)}
Exps == {I64!FromInt(n) : n \in 0..70} \cup {I64!FromInt(100), I64!FromInt(1000), I64!FromInt(65537), I64!FromInt(-1), I64!FromInt(-2),
         P(31), P(32), I64!Add(P(32), I64!One), I64!Add(P(32), I64!FromInt(3)), P(33), P(62), I64!MaxInt, I64!Sub(I64!MaxInt, I64!One)}

\* doubles around the integer range (odd mantissa, exponent)
M53 == I64!Sub(P(53), I64!One)                 \* 2^53 - 1
M52p == I64!Add(P(52), I64!One)                \* 2^52 + 1
DecLattice ==
  {Dec(s, m, e) : s \in {0, 1}, m \in {I64!One}, e \in {-1074, -1, 0, 1, 52, 53, 62, 63, 64, 1023}}
  \cup {Dec(s, I64!FromInt(3), e) : s \in {0, 1}, e \in {-1, 0, 61, 62}}
  \cup {Dec(s, M53, e) : s \in {0, 1}, e \in {0, 1, 9, 10, 11}}
  \cup {Dec(s, M52p, e) : s \in {0, 1}, e \in {0, 1, 10, 11, 12}}
  \cup {Dec(s, I64!Zero, 0) : s \in {0, 1}}
  \cup {[k |-> "d", cls |-> c, s |-> s, m |-> I64!Zero, e |-> 0] : c \in {"inf", "nan"}, s \in {0, 1}}

Chunk == 64
Chunks(S) == LET q == SetToSeq(S)  n == Len(q) IN
             {SubSeq(q, c * Chunk + 1, IF (c + 1) * Chunk > n THEN n ELSE (c + 1) * Chunk) : c \in 0..((n - 1) \div Chunk)}
Pairs(A, B) == {[a |-> a, b |-> b] : a \in A, b \in B}
IL == {IntOp_(x) : x \in Lattice}
IM == {IntOp_(x) : x \in Mid}

BinSyms == <<"+", "-", "*", "&", "|", "^", "==", "!=", "<", "<=", ">", ">=">>
Work ==
  UNION {{[kind |-> "bin", sym |-> BinSyms[o], expr |-> "A " \o BinSyms[o] \o " B", pairs |-> c] : c \in Chunks(Pairs(IL, IL))} : o \in DOMAIN BinSyms}
  \cup {[kind |-> "bin", sym |-> f, expr |-> f \o "(A, B)", pairs |-> c] : f \in {"max", "min"}, c \in Chunks(Pairs(IM, IM))}
  \cup {[kind |-> "divmod", sym |-> "/%", expr |-> "A / B", expr2 |-> "A % B", pairs |-> c] : c \in Chunks(Pairs(IL \cup {NullI}, IL \cup {NullI}))}
  \cup {[kind |-> "divmod", sym |-> "/mod", expr |-> "A / B", expr2 |-> "mod(A, B)", pairs |-> c] : c \in Chunks(Pairs(IM, IM))}
  \cup {[kind |-> "bin", sym |-> d, expr |-> "A " \o d \o " B", pairs |-> c] : d \in {"<<", ">>"}, c \in Chunks(Pairs(IM, {IntOp_(x) : x \in Disp}))}
  \cup {[kind |-> "bin", sym |-> d, expr |-> "A " \o d \o " B", pairs |-> c] : d \in {"**", "power"}, c \in Chunks(Pairs(IM, {IntOp_(x) : x \in Exps}))}
  \cup {[kind |-> "un", sym |-> u[1], expr |-> u[2], pairs |-> c] : u \in {<<"neg", "-A">>, <<"not", "~A">>, <<"abs", "abs(A)">>}, c \in Chunks(Pairs(IL \cup {NullI}, {Nil}))}
  \cup {[kind |-> "bin", sym |-> BinSyms[o], expr |-> "A " \o BinSyms[o] \o " B", pairs |-> c] : o \in DOMAIN BinSyms, c \in Chunks(Pairs({NullI}, IM) \cup Pairs(IM, {NullI}) \cup Pairs({NullI}, {NullI}))}
  \cup {[kind |-> "int", sym |-> "int", expr |-> "int(A)", pairs |-> c] : c \in Chunks(Pairs(DecLattice, {Nil}))}
  \cup {[kind |-> "int", sym |-> "int", expr |-> "int(A)", pairs |-> c] : c \in Chunks(Pairs(IM, {Nil}))}
  \cup {[kind |-> "num", sym |-> "num", expr |-> "num(A)", pairs |-> c] : c \in Chunks(Pairs(IL, {Nil}))}
  \cup {[kind |-> "bin", sym |-> s, expr |-> "A " \o s \o " B", pairs |-> c] : s \in {"+", "-", "*"}, c \in Chunks(Pairs(IM, DecLattice)) \cup Chunks(Pairs(DecLattice, IM))}

\* "an operation with a decimal operand is carried out in double precision": mixing an integer with a decimal is the same
\* as converting the integer first - A op B and num(A) op num(B) must give the very same double (relation, no expected value)
MixSyms == <<"+", "-", "*", "/", "<", "==">>
MixWork ==
  UNION {{[kind |-> "same2", sym |-> MixSyms[o], expr |-> "A " \o MixSyms[o] \o " B", expr2 |-> "num(A) " \o MixSyms[o] \o " num(B)", pairs |-> c]
            : c \in Chunks(Pairs(IL, DecLattice)) \cup Chunks(Pairs(DecLattice, IL))} : o \in DOMAIN MixSyms}

\* "/" raises DIVIDE_BY_ZERO for a zero divisor ONLY: every other decimal divisor (the smallest subnormal, infinities, NaN) and every
\* non-zero integer divisor of a decimal gives a decimal
DivDecWork ==
  {[kind |-> "divdec", sym |-> "/", expr |-> "A / B", pairs |-> c] : c \in Chunks(Pairs(IM, DecLattice)) \cup Chunks(Pairs(DecLattice, DecLattice)) \cup Chunks(Pairs(DecLattice, IM))}
VARIABLE p
Init == p \in Work \cup MixWork \cup DivDecWork
Next == UNCHANGED p
Emit == PrintT("@@S " \o ToJson([prop |-> "C03", key |-> p.expr,
          steps |-> <<IF "expr2" \in DOMAIN p
                      THEN [op |-> "arith", ctx |-> 0, kind |-> p.kind, sym |-> p.sym, expr |-> p.expr, expr2 |-> p.expr2, pairs |-> p.pairs]
                      ELSE [op |-> "arith", ctx |-> 0, kind |-> p.kind, sym |-> p.sym, expr |-> p.expr, pairs |-> p.pairs]>>]))
=============================================================================
