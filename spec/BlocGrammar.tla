----------------------------- MODULE BlocGrammar -----------------------------
(***************************************************************************)
(* The expression grammar of BLOC (parse_expression.cpp) as a precedence   *)
(* table and a recursive-descent parser over token sequences, together     *)
(* with the unparser that writes an expression tree with the FEWEST        *)
(* parentheses (the token-level twin of Bloc!RMin, which produces the      *)
(* texts of the C12 scenarios).  Levels: 1 logic, 2 relation (does not     *)
(* chain), 3 bit logic, 4 shift, 5 sum, 6 term, 7 unary, 8 exponent (right *)
(* associative, binds tighter than the unary operators), 9 element.        *)
(* TLC checks for every tree of depth <= 2 over one operator per level,    *)
(* two unary operators and two leaves:                                     *)
(*   RoundTrip   Parse(Unparse(e)) = e and nothing is left over            *)
(*   Minimal     removing any pair of parentheses Unparse wrote changes    *)
(*               the tree (or makes the text invalid)                      *)
(* Dev = "neg_const_bare" is the seeded change C12-2 (a negated constant   *)
(* loses its parentheses): RoundTrip fails for (-7) ** 2.                  *)
(***************************************************************************)
EXTENDS Integers, Sequences, FiniteSets, TLC
CONSTANT Dev

Ops == <<"or", "==", "|", "<<", "+", "*", "**">>           \* one operator of each binary level
Level(op) == CASE op = "or" -> 1 [] op = "==" -> 2 [] op = "|" -> 3 [] op = "<<" -> 4 [] op = "+" -> 5 [] op = "*" -> 6 [] op = "**" -> 8 [] OTHER -> 0
UnOps == {"-", "not"}
Leaves == {"a", "7"}

Leaf(x) == [k |-> "leaf", x |-> x]
Bin(op, a, b) == [k |-> "bin", op |-> op, a |-> a, b |-> b]
Un(op, a) == [k |-> "un", op |-> op, a |-> a]
ELevel(e) == IF e.k = "bin" THEN Level(e.op) ELSE IF e.k = "un" THEN 7 ELSE 9

(* ------------------------------- unparser ------------------------------ *)
RECURSIVE U(_, _)
U(e, min) ==
  LET t == CASE e.k = "bin" ->
                  IF Level(e.op) = 8 THEN U(e.a, 9) \o <<e.op>> \o U(e.b, 8)
                  ELSE IF Level(e.op) = 2 THEN U(e.a, 3) \o <<e.op>> \o U(e.b, 3)
                  ELSE U(e.a, Level(e.op)) \o <<e.op>> \o U(e.b, Level(e.op) + 1)
             [] e.k = "un" -> <<e.op>> \o U(e.a, 8)
             [] OTHER -> <<e.x>>
      bare == Dev = "neg_const_bare" /\ e.k = "un" /\ e.op = "-" /\ e.a.k = "leaf" /\ e.a.x = "7"
  IN  IF ELevel(e) < min /\ ~bare THEN <<"(">> \o t \o <<")">> ELSE t
Unparse(e) == U(e, 1)

(* -------------------------------- parser ------------------------------- *)
Bad == [k |-> "bad"]
R(e, r) == [e |-> e, r |-> r]
IsBad(x) == x.e.k = "bad"
Tok(ts) == IF ts = <<>> THEN "" ELSE Head(ts)
RECURSIVE P(_, _), Loop(_, _, _)
\* left-associative levels: lhs (op rhs)*
Loop(L, lhs, ts) ==
  IF Tok(ts) # "" /\ Level(Tok(ts)) = L
  THEN LET rhs == P(L + 1, Tail(ts)) IN IF IsBad(rhs) THEN rhs ELSE Loop(L, Bin(Tok(ts), lhs, rhs.e), rhs.r)
  ELSE R(lhs, ts)
P(L, ts) ==
  IF L \in {1, 3, 4, 5, 6} THEN LET l == P(L + 1, ts) IN IF IsBad(l) THEN l ELSE Loop(L, l.e, l.r)
  ELSE IF L = 2 THEN LET l == P(3, ts) IN
       IF IsBad(l) \/ Level(Tok(l.r)) # 2 \/ Tok(l.r) = "" THEN l
       ELSE LET r == P(3, Tail(l.r)) IN IF IsBad(r) THEN r ELSE R(Bin(Tok(l.r), l.e, r.e), r.r)
  ELSE IF L = 7 THEN (IF Tok(ts) \in UnOps THEN LET a == P(8, Tail(ts)) IN IF IsBad(a) THEN a ELSE R(Un(Tok(ts), a.e), a.r) ELSE P(8, ts))
  ELSE IF L = 8 THEN LET l == P(9, ts) IN
       IF IsBad(l) \/ Tok(l.r) # "**" THEN l
       ELSE LET r == P(8, Tail(l.r)) IN IF IsBad(r) THEN r ELSE R(Bin("**", l.e, r.e), r.r)
  ELSE \* element
       IF Tok(ts) \in Leaves THEN R(Leaf(Tok(ts)), Tail(ts))
       ELSE IF Tok(ts) = "(" THEN LET x == P(1, Tail(ts)) IN
            IF IsBad(x) \/ Tok(x.r) # ")" THEN R(Bad, <<>>) ELSE R(x.e, Tail(x.r))
       ELSE R(Bad, <<>>)
Parse(ts) == LET x == P(1, ts) IN IF IsBad(x) \/ x.r # <<>> THEN Bad ELSE x.e

(* -------------------------------- family ------------------------------- *)
T0 == {Leaf(x) : x \in Leaves}
Grow(S) == T0 \cup {Un(o, a) : o \in UnOps, a \in S} \cup {Bin(Ops[j], a, b) : j \in DOMAIN Ops, a \in S, b \in S}
T1 == Grow(T0)
\* the trees are the successors of parts of the family so that all workers share the work
VARIABLES e, part
Init == e = Leaf("a") /\ part = ""
Next == \/ part = "" /\ part' \in {Ops[j] : j \in DOMAIN Ops} \cup UnOps /\ e' = e
        \/ part # "" /\ e = Leaf("a") /\ part' = part
           /\ e' \in (IF part \in UnOps THEN {Un(part, a) : a \in Grow(T1)} ELSE {Bin(part, a, b) : a \in T1, b \in T1})

RoundTrip == Parse(Unparse(e)) = e
\* every pair of parentheses is needed: dropping the pair opened at position j gives another tree or no tree
Match(ts, j) == LET D[q \in j..Len(ts)] == IF q = j THEN 1 ELSE D[q - 1] + (IF ts[q] = "(" THEN 1 ELSE IF ts[q] = ")" THEN -1 ELSE 0)
                IN  CHOOSE q \in (j + 1)..Len(ts) : D[q] = 0 /\ \A z \in (j + 1)..(q - 1) : D[z] > 0
Drop(ts, j) == LET c == Match(ts, j) IN SubSeq(ts, 1, j - 1) \o SubSeq(ts, j + 1, c - 1) \o SubSeq(ts, c + 1, Len(ts))
Minimal == LET ts == Unparse(e) IN \A j \in DOMAIN ts : ts[j] = "(" => Parse(Drop(ts, j)) # e
=============================================================================
