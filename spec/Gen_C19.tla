------------------------------ MODULE Gen_C19 ------------------------------
(***************************************************************************)
(* Scenario generator for C19: programs (succeeding, failing at run time   *)
(* after some output, failing at compile time, returning each value type)  *)
(* x argument vectors x the ways of running them with the bloc command     *)
(* (file, standard input, --out=FILE, -e expression, -i interactive).      *)
(***************************************************************************)
EXTENDS Shapes
P1(s) == PrintS(<<Str(s)>>)
ShowArgs == <<PrintS(<<Mem(V("$ARG"), "count", <<>>)>>), Forall("A", V("$ARG"), "auto", <<PrintS(<<Str("["), V("A"), Str("]")>>)>>)>>
Returns == << <<>>, <<Return(I(42))>>, <<Return(D(5))>>, <<Return(Str("text"))>>, <<Return(B(TRUE))>>, <<Return(NullC)>>, <<Return(Call("int", <<>>))>>,
              <<Return(NoExpr)>>, <<Return(Call("tab", <<I(1), I(1)>>))>>, <<Return(Bin("+", I(40), I(2))), P1("never")>>,
              \* texts that must be printed as they are (no interpretation of % or backslash by the command)
              <<Return(Call("tup", <<I(1), Str("a b"), D(5), B(TRUE), Call("int", <<>>), Call("raw", <<I(2), I(65)>>)>>))>>, <<PrintS(<<Call("tup", <<I(7), Str("x")>>)>>), Return(Call("tup", <<B(FALSE)>>))>>,
              <<Return(Str("100%% sure %d %s"))>>, <<Return(Str("a%b%"))>>, <<PrintS(<<Str("50%% off %s")>>), Return(Str("%5d|%-3s|%x"))>> >>
Fails == << <<Let("X", Bin("/", I(1), I(0)))>>, <<RaiseS("MYERR")>>, <<Let("X", Mem(Call("tab", <<I(1), I(1)>>), "at", <<I(9)>>))>>,
            <<Begin(<<RaiseS("E1")>>, <<When("E2", <<P1("no")>>)>>)>>, <<For("I", I(1), I(3), NoExpr, "auto", <<PutS(<<V("I")>>), If(Bin("==", V("I"), I(2)), <<RaiseS("OUT_OF_RANGE")>>, <<>>)>>)>> >>
Progs == {ShowArgs \o <<P1("body")>> \o Returns[j] : j \in DOMAIN Returns}
         \cup {ShowArgs \o <<P1("before")>> \o Fails[j] \o <<P1("after")>> : j \in DOMAIN Fails}
         \cup {<<Func("SQ", <<"X">>, <<Return(Bin("*", V("X"), V("X")))>>), PutS(<<UCall("SQ", <<I(7)>>)>>), PutS(<<Str(" no newline")>>)>>,
               <<Begin(<<RaiseS("E1")>>, <<When("E1", <<P1("handled")>>)>>), Return(I(0))>>}
\* thorough tier: every nesting of depth <= 1 of the control/exception/function shapes, as a script and on standard input
Thorough == Env("VERIF_TIER", "quick") = "thorough"
DeepProgs == IF Thorough
             THEN {<<Func("FDIV", <<"A">>, <<Return(Bin("/", I(1), V("A")))>>), Let("T", Call("tab", <<I(2), I(7)>>))>> \o x.defs \o x.body \o <<P1("after")>>
                   : x \in UNION {ShapesOf(d, Leaves) : d \in 0..1}}
             ELSE {}
ArgVecs == << <<>>, <<"a">>, <<"a", "b c", "q\"uote", "", "-x", "--out=zz", "12">>, <<"1", "2", "3", "4", "5", "6", "7", "8", "9", "10", "11", "12">> >>
BadTexts == {"X = ;", "print (1;", "for I in 1 to loop print I; end loop;", "X = 1;\nY = 2;\nif X then\nprint 1;\n", "print \"open;", "X = 1 +* 2;", "function F( return 1;", "begin print 1; end"}

\* interactive: several statements, some fail, the others still run; returns print their value
Inter == { <<Let("X", I(5)), PrintS(<<V("X")>>), PrintS(<<Bin("/", I(1), I(0))>>), P1("after"), Return(I(7)), P1("more"), For("I", I(1), I(2), NoExpr, "auto", <<PrintS(<<V("I")>>)>>), RaiseS("ZZ"), Return(Str("s")), Return(NullC),
             Return(Call("tup", <<I(1), Str("a b"), D(5)>>)), Return(Call("tab", <<I(2), I(1)>>)), Return(Call("tab", <<I(0), Str("s")>>)), P1("end")>>,
           <<Func("SQ", <<"X">>, <<Return(Bin("*", V("X"), V("X")))>>), PrintS(<<UCall("SQ", <<I(3)>>)>>), Let("Y", Mem(Call("tab", <<I(1), I(1)>>), "at", <<I(9)>>)), PrintS(<<Str("y")>>)>>,
           ShowArgs \o <<Return(B(FALSE))>>,
           \* a return without value, then compound statements: they still run
           <<P1("a"), Return(NoExpr), For("J", I(1), I(2), NoExpr, "auto", <<PrintS(<<Str("j="), V("J")>>)>>), If(B(TRUE), <<P1("then branch")>>, <<P1("else")>>),
             Begin(<<P1("in block")>>, <<>>), Let("K", I(0)), While(Bin("<", V("K"), I(2)), <<Let("K", Bin("+", V("K"), I(1))), PutS(<<V("K")>>)>>), P1(""), Return(NoExpr), P1("z"),
             Begin(<<Return(NoExpr)>>, <<>>), P1("y"), For("J", I(1), I(1), NoExpr, "auto", <<Return(NoExpr)>>), P1("x"), Return(I(3)), P1("w")>> }

a1 == I(7)  a2 == I(2)  a3 == I(3)
ExprTrees == {Bin(p, Bin(c, a1, a2), a3) : p \in {"+", "-", "*", "/", "%"}, c \in {"+", "*", "**"}} \cup {Bin("<", a1, a2), Bin("==", Str("a"), Str("a")), Str("text"), D(5), B(FALSE), NullC,
              Bin("/", a1, I(0)), Call("int", <<>>), Bin("+", Str("a"), Str("b")), Str("ratio 100%"), Str("%s%s%d")}

\* a script with CRLF line ends and one long line, through the command's own readers (every length around the chunk size)
LongProg == "abcdef = 12345678; print abcdef;"
LongScenario(crlf) ==
  LET t == IF crlf THEN LongProg \o "\r\nprint 2;\r\n" ELSE LongProg \o "\nprint 2;\n" IN
  [prop |-> "C19", key |-> "long",
   steps |-> <<[op |-> "execfrag", ctx |-> 0, reader |-> "string", text |-> t]>>
             \o [k \in 1..138 |-> [op |-> "cli", mode |-> (IF k <= 46 THEN "file" ELSE IF k <= 92 THEN "stdin" ELSE "inter"), text |-> t, padline |-> 984 + ((k - 1) % 46) + 1, args |-> <<>>, same_out_as |-> 1]]]
\* the position of a compile error: valid lines of every kind (statements, comments of one and of several lines, a string
\* literal that spans lines, blank lines, a directive-like comment) followed by a line whose only error is at a known column
PosLines == << <<"X = 1;">>, <<"">>, <<"// note">>, <<"/* one line */ Y = 2;">>, <<"/* header", " * of the script", " */">>, <<"S = \"first", "second\";">>,
               <<"Z = 3; /* a", "b */ W = 4;">>, <<"print \"a\"; // tail">>, <<"T = tab(2,", "   1);">> >>
\* [text of the faulty line, column of the token the message names]
PosBad == << [t |-> "print QQ;", c |-> 7], [t |-> "  X2 = QQ + 1;", c |-> 8], [t |-> "print 1 + ;", c |-> 11], [t |-> "/* c */ print QQ;", c |-> 15] >>
PosFlat(a, b) == PosLines[a] \o PosLines[b]
JoinNL(ls) == LET J[i \in 0..Len(ls)] == IF i = 0 THEN "" ELSE J[i - 1] \o ls[i] \o "\n" IN J[Len(ls)]
PosScenario(a, b, i) ==
  LET ls == PosFlat(a, b)  t == JoinNL(ls) \o PosBad[i].t \o "\n"  w == [l |-> Len(ls) + 1, c |-> PosBad[i].c] IN
  [prop |-> "C19", key |-> "pos",
   steps |-> << [op |-> "cli", mode |-> "file", text |-> t, args |-> <<>>, want_pos |-> w],
                [op |-> "cli", mode |-> "stdin", text |-> t, args |-> <<>>, want_pos |-> w] >>]
VARIABLE p
Init == p \in {[k |-> "prog", m |-> m, a |-> a, mode |-> mode] : m \in Progs, a \in DOMAIN ArgVecs, mode \in {"file", "stdin", "out"}}
              \cup {[k |-> "prog", m |-> m, a |-> 1, mode |-> mode] : m \in DeepProgs, mode \in {"file", "stdin", "out"}}
              \cup {[k |-> "inter", m |-> m, a |-> 1] : m \in DeepProgs}
              \cup {[k |-> "bad", t |-> t, mode |-> mode] : t \in BadTexts, mode \in {"file", "stdin", "out"}}
              \cup {[k |-> "inter", m |-> m, a |-> a] : m \in Inter, a \in {1, 3}}
              \cup {[k |-> "expr", e |-> e] : e \in ExprTrees}
              \cup {[k |-> "badexpr", t |-> t] : t \in {"1 +", "(2", "foo(", "* 3"}}
              \cup {[k |-> "long", c |-> c] : c \in BOOLEAN}
              \cup {[k |-> "pos", a |-> a, b |-> b, i |-> i] : a \in DOMAIN PosLines, b \in DOMAIN PosLines, i \in DOMAIN PosBad}
              \cup {[k |-> "save", m |-> m] : m \in {x \in Progs \cup DeepProgs : ~Failed(RunProgram(x, SetVar(State0, "$ARG", VTab(TStr, <<>>))))}}
Next == UNCHANGED p
Scenario(q) ==
  CASE q.k = "prog" -> [prop |-> "C19", key |-> q.mode, steps |-> <<[op |-> "cli", mode |-> q.mode, ast |-> q.m, text |-> Render(q.m), args |-> ArgVecs[q.a]]>>]
    [] q.k = "bad" -> [prop |-> "C19", key |-> "bad", steps |-> <<[op |-> "cli", mode |-> q.mode, reject |-> TRUE, text |-> q.t, args |-> <<>>]>>]
    [] q.k = "inter" -> [prop |-> "C19", key |-> "inter", steps |-> <<[op |-> "cli", mode |-> "inter", ast |-> q.m, text |-> Render(q.m) \o "\n", args |-> ArgVecs[q.a]]>>]
    [] q.k = "expr" -> [prop |-> "C19", key |-> "expr", steps |-> <<[op |-> "cli", mode |-> "expr", ast |-> q.e, text |-> RMin(q.e), args |-> <<>>]>>]
    [] q.k = "long" -> LongScenario(q.c)
    [] q.k = "pos" -> PosScenario(q.a, q.b, q.i)
    [] q.k = "save" -> [prop |-> "C19", key |-> "save", steps |-> <<[op |-> "cli", mode |-> "save", ast |-> q.m, text |-> Render(q.m), args |-> <<>>]>>]
    [] q.k = "badexpr" -> [prop |-> "C19", key |-> "badexpr", steps |-> <<[op |-> "cli", mode |-> "expr", reject |-> TRUE, text |-> q.t, args |-> <<>>]>>]
Emit == PrintT("@@S " \o ToJson(Scenario(p)))
=============================================================================
