------------------------------ MODULE Gen_C13 ------------------------------
(***************************************************************************)
(* Scenario generator for C13.                                             *)
(*  T: texts built from every multi-character lexeme class of the scanner  *)
(*     (operators, comment delimiters, string quotes and escapes, numbers  *)
(*     with fraction/exponent/hex, identifiers, '#' directives, CR LF),    *)
(*     all sequences of <= 3 lexemes; each delivered by the built-in       *)
(*     string reader (reference) and by a fragmenting stream reader with   *)
(*     every single split position and the fixed sizes 1, 2, 3, 5.         *)
(*  L: seed programs laid out on one long line behind a comment of every   *)
(*     length 985..1030, so that every token of the program straddles the  *)
(*     internal buffer boundary of the readers for some pad; and CRLF      *)
(*     versions.  Outcome, output and unparsed program must not change.    *)
(***************************************************************************)
EXTENDS Bloc, Json, IOUtils, SequencesExt
Env(n, d) == IF n \in DOMAIN IOEnv THEN IOEnv[n] ELSE d
Thorough == Env("VERIF_TIER", "quick") = "thorough"

Lexemes == << "==", "<=", ">=", "<>", "!=", "**", "&&", "||", "<<", ">>", ":=", "++", "--", "/*", "*/", "//", "\"", "\\\"", "\"\"", "\\\\",
              "1.5e+3", "12", "0x1f", ".5", "1.5", "3e2", "abc", "a1$_", "#", " ", "\t", "\n", "\r\n", ";", "(", ")", ",", "@", ".", "=", "<", ">", "*", "/", "-", "e", "x" >>
Lens == << 2, 2, 2, 2, 2, 2, 2, 2, 2, 2, 2, 2, 2, 2, 2, 2, 1, 2, 2, 2, 6, 2, 4, 2, 3, 3, 3, 4, 1, 1, 1, 1, 2, 1, 1, 1, 1, 1, 1, 1, 1, 1, 1, 1, 1, 1, 1 >>
Idx == DOMAIN Lexemes
Seq3 == IF Thorough THEN {<<a>> : a \in Idx} \cup {<<a, b>> : a \in Idx, b \in Idx} \cup {<<a, b, c>> : a \in Idx, b \in Idx, c \in Idx}
        ELSE {<<a>> : a \in Idx} \cup {<<a, b>> : a \in Idx, b \in Idx} \cup {<<a, b, c>> : a \in Idx, b \in {1, 14, 15, 16, 17, 18, 19, 21, 23, 25, 27, 29, 32, 33}, c \in Idx}
TextOf(q) == LET J[i \in 0..Len(q)] == IF i = 0 THEN "" ELSE J[i - 1] \o Lexemes[q[i]] IN J[Len(q)]
LenOf(q) == LET J[i \in 0..Len(q)] == IF i = 0 THEN 0 ELSE J[i - 1] + Lens[q[i]] IN J[Len(q)]

TScenario(q) ==
  LET t == TextOf(q) \o "\n"  n == LenOf(q) + 1
      ref == [op |-> "tokens", ctx |-> 0, reader |-> "string", text |-> t]
      splits == [k \in 1..(n - 1) |-> [op |-> "tokens", ctx |-> 0, text |-> t, frags |-> <<k, n>>, same_toks_as |-> 1]]
      fixed == [j \in 1..4 |-> [op |-> "tokens", ctx |-> 0, text |-> t, frags |-> <<<<1, 2, 3, 5>>[j]>>, same_toks_as |-> 1]]
  IN [prop |-> "C13", key |-> "T", steps |-> <<ref>> \o splits \o fixed]

A == V("A")
Seeds == <<
  "abcdef = 12345678; print abcdef;",
  "x = 1.5e+3 + 0x1f; if x >= 1531.0 && x <= 1531.5 then print \"ge\\\"q\" \"d\"\"q\" \"b\\\\\"; end if; /* c */ print x ** 2; // tail",
  "t = tab(2, \"a\"); forall e in t loop e.concat(\"z\"); end loop; print t.at(1) <> \"az\" t.at(0) == \"az\";",
  "function ff(a, b) return integer is begin return a << 2 | b >> 1; end; print ff(3, 5) ff(1, 1) != 4;",
  "begin raise my_err; exception when my_err then print error@1; when others then print \"o\"; end; print 10 % 4 - -2;"
>>
LScenario(s, crlf) ==
  LET t == IF crlf THEN Seeds[s] \o "\r\n" ELSE Seeds[s] \o "\n"
      ref == [op |-> "execfrag", ctx |-> 0, reader |-> "string", text |-> t]
      pads == [k \in 1..46 |-> [op |-> "execfrag", ctx |-> k, reader |-> "string", text |-> t, padline |-> 984 + k, same_run_as |-> 1]]
      \* later boundaries of the same line: multiples of the scanner's buffer (1023) and of a page (4096) -- a reader or a
      \* gathering loop that gives up after some amount of text splits a lexeme there
      far == LET Bs == <<2046, 3069, 4092, 4096, 8184, 8192>>
             IN [k \in 1..(46 * Len(Bs)) |-> [op |-> "execfrag", ctx |-> 200 + k, reader |-> "string", text |-> t,
                                              padline |-> Bs[1 + ((k - 1) \div 46)] - 39 + (1 + ((k - 1) % 46)), same_run_as |-> 1]]
      frag == [j \in 1..5 |-> [op |-> "execfrag", ctx |-> 46 + j, text |-> t, frags |-> <<<<1, 2, 7, 64, 1000>>[j]>>, same_run_as |-> 1]]
      \* the bloc command reads a script file and its standard input through readers of its own
      cli == IF crlf \/ s = 1
             THEN [k \in 1..138 |-> [op |-> "cli", mode |-> (IF k <= 46 THEN "file" ELSE IF k <= 92 THEN "stdin" ELSE "inter"), text |-> t, padline |-> 984 + ((k - 1) % 46) + 1, args |-> <<>>, same_out_as |-> 1]]
             ELSE <<>>
      \* the INCLUDE statement reads the file with a reader of its own
      incl == [k \in 1..46 |-> [op |-> "execfrag", ctx |-> 100 + k, reader |-> "include", text |-> t, padline |-> 984 + k, same_run_as |-> 1, nounp |-> TRUE]]
  IN [prop |-> "C13", key |-> "L", steps |-> <<ref>> \o pads \o frag \o cli \o incl \o far]
\* CR LF against LF: same tokens
CScenario(s) ==
  [prop |-> "C13", key |-> "C",
   steps |-> << [op |-> "execfrag", ctx |-> 0, reader |-> "string", text |-> Seeds[s] \o "\n"],
                [op |-> "execfrag", ctx |-> 1, reader |-> "string", text |-> Seeds[s] \o "\r\n", same_run_as |-> 1],
                [op |-> "execfrag", ctx |-> 2, text |-> Seeds[s] \o "\r\n", frags |-> <<1>>, same_run_as |-> 1] >>]

VARIABLE p
Init == p \in {[k |-> "T", q |-> q] : q \in Seq3} \cup {[k |-> "L", s |-> s, c |-> c] : s \in DOMAIN Seeds, c \in BOOLEAN} \cup {[k |-> "C", s |-> s] : s \in DOMAIN Seeds}
Next == UNCHANGED p
Emit == PrintT("@@S " \o ToJson(IF p.k = "T" THEN TScenario(p.q) ELSE IF p.k = "L" THEN LScenario(p.s, p.c) ELSE CScenario(p.s)))
=============================================================================
