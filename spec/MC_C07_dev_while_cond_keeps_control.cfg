INIT Init
NEXT Next
CONSTANT Dev = {"while_cond_keeps_control"}
INVARIANT RefinesBatch
INVARIANT NoResidueBatch
INVARIANT RefinesStepwise
INVARIANT NoResidueStepwise
CHECK_DEADLOCK FALSE
