----------------------------- MODULE BlocControl -----------------------------
(***************************************************************************)
(* Implementation-shaped model of BLOC's control machinery, written from   *)
(* the C++ (Executable::run, Statement::execute, WHILE/FOR/IF/BEGIN        *)
(* ::doit, BEGINStatement::docatch, BREAK/CONTINUE, Context::              *)
(* onRuntimeError), one operator per function:                             *)
(*                                                                         *)
(*   ctrl  control stack: one entry <<loop identity, level stamp>> per     *)
(*         running loop; a loop statement re-executes itself ("return      *)
(*         this") and recognises its own entry on top of the stack         *)
(*   lvl   exec level = number of open begin blocks                        *)
(*   brk, cont, ret   the three stop conditions                            *)
(*   exc   the C++ exception in flight (NoErr = none)                      *)
(*                                                                         *)
(* Expressions, variables and output are those of the ideal layer          *)
(* (Bloc.tla).  TLC checks, for every program of the nesting family, run   *)
(* as one unit and statement by statement (the host calls                  *)
(* Statement::execute itself and nobody calls onRuntimeError for it):      *)
(*   Refines    same output / error / variables as the ideal layer         *)
(*   NoResidue  nothing stays on the control stack, no level, no flag      *)
(*   HandlerSeesEnclosingLoops  when a handler starts, the control stack   *)
(*              holds exactly the loops around its begin block             *)
(* Dev names deliberate deviations = what defective variants of the code   *)
(* do; with Dev = {} the invariants hold, MC_C07_dev.cfg shows TLC finding *)
(* the counterexample for each of them.                                    *)
(***************************************************************************)
EXTENDS Bloc, IOUtils

CONSTANT Dev       \* subset of:
                   \*  "while_cond_keeps_control"   a while whose condition raises stays on the control stack (the pinned tree)
                   \*  "handler_error_keeps_level"  a handler that raises leaves its block open (seeded change C07-1)
                   \*  "continue_cleared_late"      a continue request is cleared only after the next condition was evaluated (C07-2)

Env(n, d) == IF n \in DOMAIN IOEnv THEN IOEnv[n] ELSE d
Depth == atoi(Env("MC_DEPTH", "2"))

(* ------------------------------ machine state -------------------------- *)
X0(S) == [S |-> S, ctrl |-> <<>>, lvl |-> 0, brk |-> FALSE, cont |-> FALSE, ret |-> FALSE, exc |-> NoErr, bad |-> ""]
Top(X) == IF X.ctrl = <<>> THEN "" ELSE X.ctrl[Len(X.ctrl)].id
Push(X, id) == [X EXCEPT !.ctrl = Append(@, [id |-> id, lvl |-> X.lvl])]
Pop(X) == [X EXCEPT !.ctrl = SubSeq(@, 1, Len(@) - 1)]
Stop(X) == X.brk \/ X.cont \/ X.ret
Throw(X, S, e) == [X EXCEPT !.S = [S EXCEPT !.sig = "", !.err = NoErr], !.exc = e]

\* Context::onRuntimeError: close every loop opened at this exec level or deeper
RECURSIVE OnErr(_)
OnErr(X) == IF X.ctrl # <<>> /\ X.ctrl[Len(X.ctrl)].lvl >= X.lvl THEN OnErr(Pop(X)) ELSE X

\* evaluation of an expression of the ideal layer inside the machine
EvalX(e, X) == LET r == Eval(e, [X.S EXCEPT !.sig = "", !.err = NoErr]) IN
               IF Failed(r.S) THEN [X |-> Throw(X, r.S, r.S.err), v |-> VNil, ok |-> FALSE]
               ELSE [X |-> [X EXCEPT !.S = r.S], v |-> r.v, ok |-> TRUE]

RECURSIVE XRun(_, _, _), XStmt(_, _, _), XWhile(_, _, _, _), XForIter(_, _, _, _, _), XIf(_, _, _, _), XCatch(_, _, _, _)

\* Executable::run(ctx, statements): the statement loop with its catch-all
XRun(ss, path, X) ==
  IF X.ret THEN X
  ELSE LET F[j \in 0..Len(ss)] ==
             IF j = 0 THEN [X |-> X, go |-> TRUE]
             ELSE IF ~F[j - 1].go THEN F[j - 1]
             ELSE LET X1 == XStmt(ss[j], path \o "." \o ToString(j), F[j - 1].X) IN
                  IF X1.exc.kind # "" THEN [X |-> OnErr(X1), go |-> FALSE]      \* catch (...) { onRuntimeError(); throw; }
                  ELSE [X |-> X1, go |-> ~Stop(X1)]
       IN  F[Len(ss)].X

XIf(cs, el, path, X) ==
  IF cs = <<>> THEN (IF el = <<>> THEN X ELSE XRun(el, path \o ".e", X))
  ELSE LET r == EvalX(Head(cs).c, X) IN
       IF ~r.ok THEN r.X
       ELSE IF Truthy(r.v) THEN XRun(Head(cs).b, path \o ".t" \o ToString(Len(cs)), r.X)
       ELSE XIf(Tail(cs), el, path, r.X)

\* WHILEStatement::doit, iterated ("return this")
XWhile(s, path, X, fuel) ==
  IF fuel = 0 THEN [X EXCEPT !.bad = "fuel"]
  ELSE LET X1 == IF Top(X) # path THEN Push(X, path) ELSE X
           r  == EvalX(s.c, X1) IN
       IF ~r.ok THEN (IF "while_cond_keeps_control" \in Dev THEN r.X ELSE (IF Top(r.X) = path THEN Pop(r.X) ELSE r.X))
       ELSE LET X2 == IF "continue_cleared_late" \in Dev THEN [r.X EXCEPT !.cont = FALSE] ELSE r.X IN
       IF Truthy(r.v)
       THEN LET X3 == XRun(s.b, path, X2) IN
            IF X3.exc.kind # "" THEN X3
            ELSE IF ~Stop(X3) THEN XWhile(s, path, X3, fuel - 1)
            ELSE IF X3.cont THEN XWhile(s, path, IF "continue_cleared_late" \in Dev THEN X3 ELSE [X3 EXCEPT !.cont = FALSE], fuel - 1)
            ELSE Pop([X3 EXCEPT !.brk = FALSE])
       ELSE Pop(X2)

\* FORStatement::doit after the loop is on the control stack: min, max, step are its private data
XForIter(s, path, X, d, fuel) ==
  IF fuel = 0 THEN [X EXCEPT !.bad = "fuel"]
  ELSE LET X3 == XRun(s.b, path, X) IN
       IF X3.exc.kind # "" THEN X3
       ELSE IF Stop(X3) /\ ~X3.cont THEN Pop([X3 EXCEPT !.brk = FALSE])
       ELSE LET X4 == [X3 EXCEPT !.cont = FALSE]
                cur == X4.S.vars[s.n] IN
            IF cur.t # "int" THEN [X4 EXCEPT !.bad = "wide"]
            ELSE IF (d.step > 0 /\ (cur.v > d.max \/ d.max - cur.v < d.step)) \/ (d.step < 0 /\ (cur.v < d.min \/ cur.v - d.min < -d.step))
                 THEN Pop(X4)
                 ELSE XForIter(s, path, [X4 EXCEPT !.S = SetVar(@, s.n, VInt(cur.v + d.step))], d, fuel - 1)

\* BEGINStatement::docatch: the first matching clause runs with the block still open
XCatch(hs, e, path, X) ==
  IF hs = <<>> THEN [X EXCEPT !.lvl = @ - 1]                                    \* execEnd(); throw rt;
  ELSE IF Matches(Head(hs).w, e)
       THEN LET Xh == [X EXCEPT !.exc = NoErr, !.S.cerr = e,
                                !.bad = IF X.bad = "" /\ \E j \in DOMAIN X.ctrl : X.ctrl[j].lvl >= X.lvl
                                        THEN "a handler starts with a loop of its own block still on the control stack" ELSE X.bad]
                X3 == XRun(Head(hs).b, path \o ".h" \o ToString(Len(hs)), Xh) IN
            IF X3.exc.kind # "" THEN (IF "handler_error_keeps_level" \in Dev THEN X3 ELSE [X3 EXCEPT !.lvl = @ - 1])   \* execEnd(); throw;
            ELSE [X3 EXCEPT !.lvl = @ - 1, !.S.cerr = X.S.cerr]
       ELSE XCatch(Tail(hs), e, path, X)

\* Statement::execute -> doit
XStmt(s, path, X) ==
  CASE s.k = "nop" -> X
    [] s.k \in {"let", "letn", "print", "put", "do"} ->
         LET S1 == Exec(s, [X.S EXCEPT !.sig = "", !.err = NoErr]) IN
         IF Failed(S1) THEN Throw(X, S1, S1.err) ELSE [X EXCEPT !.S = S1]
    [] s.k = "raise" -> [X EXCEPT !.exc = IF s.n = "DIVIDE_BY_ZERO" THEN EDiv ELSE IF s.n = "OUT_OF_RANGE" THEN ERange ELSE EUser(s.n)]
    [] s.k = "break" -> IF X.ctrl # <<>> THEN [X EXCEPT !.brk = TRUE] ELSE X
    [] s.k = "continue" -> IF X.ctrl # <<>> THEN [X EXCEPT !.cont = TRUE] ELSE X
    [] s.k = "return" ->
         IF s.e.k = "none" THEN [X EXCEPT !.ret = TRUE]
         ELSE LET r == EvalX(s.e, X) IN IF ~r.ok THEN r.X ELSE [r.X EXCEPT !.ret = TRUE, !.S.rv = r.v, !.S.hasrv = TRUE]
    [] s.k = "if" -> XIf(s.cs, s.el, path, X)
    [] s.k = "while" -> XWhile(s, path, X, Fuel)
    [] s.k = "for" ->
         \* first entry: the bounds are evaluated before the loop takes control
         LET ra == EvalX(s.a, X) IN
         IF ~ra.ok THEN ra.X ELSE
         LET rb == EvalX(s.b2, ra.X) IN
         IF ~rb.ok THEN rb.X ELSE
         LET rs == IF s.st.k = "none" THEN [X |-> rb.X, v |-> VInt(1), ok |-> TRUE] ELSE EvalX(s.st, rb.X) IN
         IF ~rs.ok THEN rs.X
         ELSE IF IsNull(ra.v) \/ IsNull(rb.v) \/ IsNull(rs.v) THEN rs.X
         ELSE IF ra.v.t # "int" \/ rb.v.t # "int" \/ rs.v.t # "int" THEN [rs.X EXCEPT !.bad = "wide"]
         ELSE IF rs.v.v < 1 THEN [rs.X EXCEPT !.exc = ERange]
         ELSE LET b == ra.v.v  e == rb.v.v  st == rs.v.v IN
              IF e > b THEN (IF s.dir = "desc" THEN rs.X
                             ELSE XForIter(s, path, Push([rs.X EXCEPT !.S = SetVar(@, s.n, VInt(b))], path), [min |-> b, max |-> e, step |-> st], Fuel))
              ELSE IF s.dir = "asc" /\ e # b THEN rs.X
                   ELSE XForIter(s, path, Push([rs.X EXCEPT !.S = SetVar(@, s.n, VInt(b))], path), [min |-> e, max |-> b, step |-> -st], Fuel)
    [] s.k = "begin" ->
         LET X1 == [X EXCEPT !.lvl = @ + 1]                                     \* execBegin(this)
             X2 == XRun(s.b, path, X1) IN
         IF X2.exc.kind # "" THEN XCatch(s.hs, X2.exc, path, X2)
         ELSE [X2 EXCEPT !.lvl = @ - 1]                                         \* execEnd()
    [] OTHER -> [X EXCEPT !.bad = "statement outside the modelled subset"]

(* -------------------------- the two ways to run ------------------------ *)
Clean(S) == [S EXCEPT !.sig = "", !.err = NoErr, !.rv = VNil, !.hasrv = FALSE, !.out = ""]
\* Parser::parse + Executable::run
Batch(prog) == XRun(prog, "p", X0(Clean(State0)))
\* statement-at-a-time: the host executes each top-level statement itself, reports an error and goes on;
\* a top-level return only yields a value
RECURSIVE StepFrom(_, _, _, _)
StepFrom(prog, j, X, first) ==
  IF j > Len(prog) THEN [X |-> X, first |-> first]
  ELSE LET X1 == XStmt(prog[j], "p." \o ToString(j), X) IN
       StepFrom(prog, j + 1, [X1 EXCEPT !.exc = NoErr, !.ret = FALSE], IF first.kind = "" THEN X1.exc ELSE first)
Stepwise(prog) == StepFrom(prog, 1, X0(Clean(State0)), NoErr)

(* ------------------------------ the family ----------------------------- *)
P(s) == PrintS(<<Str(s)>>)
HandlerSets == << <<>>, <<"E1">>, <<"DIVIDE_BY_ZERO">>, <<"OTHERS">>, <<"E2", "OTHERS">> >>
Handlers(hs, d) == [j \in DOMAIN hs |-> When(hs[j], <<PrintS(<<Str("h" \o ToString(d) \o ":"), Item(Call("error", <<>>), 1)>>)>>)]
Leaves == <<
  <<Nop>>, <<RaiseS("E1")>>, <<Let("X", Bin("/", I(1), I(0)))>>, <<Break>>, <<Continue>>,
  <<While(Bin(">", Bin("/", I(1), I(0)), I(0)), <<Nop>>)>>,
  <<For("Q", Bin("/", I(1), I(0)), I(2), NoExpr, "auto", <<Nop>>)>>,
  <<If(Bin(">", Bin("/", I(1), I(0)), I(0)), <<Nop>>, <<>>)>>,
  <<For("Q", I(1), I(2), I(0), "auto", <<Nop>>)>>,
  <<Let("KK", I(0)), While(Bin(">", Bin("/", I(10), Bin("-", I(2), V("KK"))), I(0)), <<Let("KK", Bin("+", V("KK"), I(1))), Continue>>)>>,
  <<Begin(<<RaiseS("E1")>>, <<When("E1", <<P("hr"), RaiseS("E2")>>)>>)>>,
  <<For("Q", I(1), I(3), NoExpr, "auto", <<Begin(<<If(Bin("==", V("Q"), I(2)), <<RaiseS("E1")>>, <<>>), P("q")>>, <<When("E1", <<Continue>>)>>)>>)>>
>>
NW == Len(HandlerSets) + 3
Wrap(w, d, h) ==
  LET s == ToString(d) IN
  IF w <= Len(HandlerSets) THEN <<Begin(<<P("b" \o s)>> \o h \o <<P("e" \o s)>>, Handlers(HandlerSets[w], d))>>
  ELSE IF w = Len(HandlerSets) + 1 THEN <<For("I" \o s, I(1), I(2), NoExpr, "auto", <<P("f" \o s)>> \o h \o <<P("g" \o s)>>)>>
  ELSE IF w = Len(HandlerSets) + 2 THEN <<Let("K" \o s, I(0)), While(Bin("<", V("K" \o s), I(2)), <<Let("K" \o s, Bin("+", V("K" \o s), I(1))), P("w" \o s)>> \o h)>>
  ELSE <<If(B(TRUE), <<P("i" \o s)>> \o h, <<P("no")>>)>>
RECURSIVE ShapesOf(_)
ShapesOf(d) == IF d = 0 THEN {Leaves[l] : l \in DOMAIN Leaves} ELSE {Wrap(w, d, x) : w \in 1..NW, x \in ShapesOf(d - 1)}
\* what runs after the nest: a stray break, a loop that must make all its iterations, a final print
Probe == <<Break, For("J", I(1), I(3), NoExpr, "auto", <<PutS(<<V("J")>>)>>), P("ok")>>
Family == UNION {ShapesOf(d) : d \in 0..Depth}

\* the family is split in parts (by the two outermost wrappers) so that all workers share the checking
Parts == {<<0, 0, 0>>} \cup {<<1, w, 0>> : w \in 1..NW} \cup {<<d, w, v>> : d \in 2..Depth, w \in 1..NW, v \in 1..NW}
PartOf(q) == IF q[1] = 0 THEN ShapesOf(0)
             ELSE IF q[1] = 1 THEN (IF Depth >= 1 THEN {Wrap(q[2], 1, x) : x \in ShapesOf(0)} ELSE {})
             ELSE {Wrap(q[2], q[1], Wrap(q[3], q[1] - 1, x)) : x \in ShapesOf(q[1] - 2)}
VARIABLES p, part
Init == p = <<>> /\ part = <<0, 0, -1>>
Next == \/ part[3] = -1 /\ part' \in Parts /\ p' = <<>>
        \/ part[3] # -1 /\ p = <<>> /\ p' \in PartOf(part) /\ part' = part

(* ------------------------------ properties ----------------------------- *)
Residue(X) == X.ctrl # <<>> \/ X.lvl # 0 \/ X.brk \/ X.cont
Prog == p \o Probe
SameVars(a, b) == DOMAIN a = DOMAIN b /\ \A n \in DOMAIN a : a[n] = b[n]

\* batch: same outcome as the ideal layer, nothing left behind
RefinesBatch ==
  LET X == Batch(Prog)  S == RunProgram(Prog, State0) IN
  /\ X.bad = ""
  /\ (X.exc.kind # "") = (S.sig = "err") /\ (S.sig = "err" => X.exc = S.err)
  /\ X.S.out = S.out
  /\ SameVars(X.S.vars, S.vars)
NoResidueBatch == ~Residue(Batch(Prog))
\* statement-at-a-time: same output and first error as the ideal layer; nothing left behind after any statement
RefinesStepwise ==
  LET r == Stepwise(Prog)  i == RunStepwise(Prog, State0) IN
  /\ r.X.bad = ""
  /\ r.first = i.first
  /\ r.X.S.out = i.S.out
  /\ SameVars(r.X.S.vars, i.S.vars)
NoResidueStepwise == \A j \in 1..Len(Prog) : ~Residue(StepFrom(SubSeq(Prog, 1, j), 1, X0(Clean(State0)), NoErr).X)
=============================================================================
