INIT Init
NEXT Next
CONSTANTS Dev = "none"
          MaxItems = 4
INVARIANT UniformTables
CHECK_DEADLOCK FALSE
