------------------------------ MODULE Gen_C11 ------------------------------
(***************************************************************************)
(* Scenario generator for C11: a valid prefix builds a context ($-typed    *)
(* variable, table, tuple, two functions); then a text derived from a      *)
(* valid "victim" program (loops retyping variables, exception clauses,    *)
(* function redefinitions of the first / last function, new functions) by  *)
(* truncating it, deleting or replacing one token at every token position; *)
(* then a dump and a probe program.  If the text is rejected, TLC requires *)
(* the context to be exactly what it was (new names exempt) and the probe  *)
(* to behave as the specification says for the undisturbed context.        *)
(***************************************************************************)
EXTENDS BlocTokens, Json, IOUtils
Env(n, d) == IF n \in DOMAIN IOEnv THEN IOEnv[n] ELSE d

A == V("A")  Tt == V("T")
Prefix == << Let("$S", I(5)), Let("A", I(1)), Let("T", Call("tab", <<I(2), I(1)>>)), Let("U", Call("tup", <<I(1), Str("a")>>)),
             Let("E", I(0)), Let("B", I(0)), Let("K", I(0)),          \* names the victims use as loop variables exist before
             Func("F", <<"X">>, <<Return(Bin("+", V("X"), I(1)))>>),
             Func("G", <<"X">>, <<Return(Bin("*", V("X"), I(2)))>>),
             Func("G", <<"X", "Y">>, <<Return(Bin("-", V("X"), V("Y")))>>) >>

Victims == <<
  << For("I", I(1), I(3), NoExpr, "auto", <<Let("A", Str("s")), Let("T", I(5)), Let("B2", Bin("+", A, Str("t")))>>), Let("A", I(0)) >>,
  << Forall("E", Tt, "auto", <<Let("E", Bin("+", V("E"), I(1))), Let("A", D(5))>>), PrintS(<<A>>) >>,
  << Begin(<<Let("A", Str("x")), RaiseS("E2")>>, <<When("E2", <<Let("A", D(5))>>), When("OTHERS", <<Let("A", B(TRUE))>>)>>), PrintS(<<A>>) >>,
  << Func("F", <<"X">>, <<Let("Y", Bin("+", V("X"), I(1))), If(Bin(">", V("Y"), I(1)), <<Return(Str("s"))>>, <<>>), Return(V("Y"))>>), PrintS(<<UCall("F", <<I(1)>>)>>) >>,
  << Func("G", <<"X">>, <<For("K", I(1), V("X"), NoExpr, "auto", <<Let("Z", V("K"))>>), Return(V("Z"))>>), PrintS(<<UCall("G", <<I(1)>>)>>) >>,
  << Func("H", <<"P", "Q">>, <<Begin(<<Return(Bin("/", V("P"), V("Q")))>>, <<When("DIVIDE_BY_ZERO", <<Return(I(0))>>)>>)>>), Let("A", UCall("H", <<I(4), I(2)>>)) >>,
  << IfN(<<[c |-> Bin(">", A, I(0)), b |-> <<Let("A2", Str("s"))>>], [c |-> Bin("<", A, I(0)), b |-> <<Let("T", I(1))>>]>>, <<Let("$S", I(7))>>), PrintS(<<A>>) >>,
  << While(Bin("<", Mem(Tt, "count", <<>>), I(4)), <<Do(Mem(Tt, "concat", <<I(1)>>)), Let("W", Mem(Tt, "at", <<I(0)>>))>>), Let("A", V("W")) >>,
  << Let("A", Str("s")), Let("T", Bin("+", A, Str("t"))), Let("U", Mem(V("T"), "count", <<>>)), Func("F", <<"X">>, <<Return(I(0))>>), Let("A", I(2)) >>,
  << Func("F", <<"X">>, <<Return(I(100))>>), Func("G", <<"X">>, <<Return(I(200))>>), Func("G", <<"X", "Y">>, <<Return(I(300))>>), Let("A", I(3)) >>,
  \* loops nested over the same table, loop variables that existed before (their constraints and locks are at stake)
  << Forall("E", Tt, "auto", <<Forall("B", Tt, "auto", <<Let("A", Bin("+", V("B"), V("E"))), Let("$S", Bin("+", V("$S"), V("B")))>>), Let("E", Bin("+", V("E"), I(1)))>>), PrintS(<<A>>) >>,
  << For("K", I(1), I(2), NoExpr, "auto", <<For("B", I(1), V("K"), NoExpr, "desc", <<Let("A", Bin("*", V("B"), V("K")))>>), While(Bin("<", A, I(0)), <<Let("A", Bin("+", A, I(1))), Break>>)>>), PrintS(<<A>>) >>,
  << Begin(<<Forall("E", Tt, "auto", <<Begin(<<Let("A", Bin("/", V("E"), I(0)))>>, <<When("DIVIDE_BY_ZERO", <<Let("A", I(7))>>)>>)>>)>>, <<When("OTHERS", <<Let("A", I(8))>>)>>), PrintS(<<A>>) >>,
  << While(Bin("<", A, I(3)), <<Let("A", Bin("+", A, I(1))), Break>>), If(Bin(">", A, I(0)), <<Nop>>, <<Nop>>), For("K", I(1), I(1), NoExpr, "auto", <<Nop>>), Begin(<<Nop>>, <<>>), PrintS(<<A>>) >>,
  \* one text that redefines the same existing function more than once (the unit journal holds several backups of one
  \* function: they must be undone latest first), with other redefinitions and new functions in between
  << Func("F", <<"X">>, <<Return(I(100))>>), Func("G", <<"X">>, <<Return(I(200))>>), Func("F", <<"X">>, <<Return(I(101))>>), Let("A", I(3)) >>,
  << Func("G", <<"X", "Y">>, <<Return(I(300))>>), Func("NF", <<"X">>, <<Return(I(1))>>), Func("G", <<"X", "Y">>, <<Return(I(301))>>),
     Func("NF", <<"X">>, <<Return(I(2))>>), Func("G", <<"X", "Y">>, <<Return(I(302))>>), PrintS(<<UCall("G", <<I(1), I(2)>>)>>) >>
>>

Probe == << PrintS(<<UCall("F", <<I(1)>>), Str(" "), UCall("G", <<I(2)>>), Str(" "), UCall("G", <<I(5), I(2)>>), Str(" "), A, Str(" "), V("$S"), Str(" "), Mem(Tt, "count", <<>>), Str(" "), Item(V("U"), 2)>>),
            Let("A", Bin("+", A, I(1))), Let("$S", Bin("+", V("$S"), I(1))), Do(Mem(Tt, "concat", <<I(5)>>)),
            For("I", I(1), I(2), NoExpr, "auto", <<PutS(<<V("I")>>)>>), Forall("E", Tt, "auto", <<PutS(<<V("E")>>)>>),
            Begin(<<RaiseS("E1")>>, <<When("E1", <<PrintS(<<Str("h")>>)>>)>>),
            Func("NEWF", <<"X">>, <<Return(Bin("+", V("X"), I(5)))>>), PrintS(<<UCall("NEWF", <<I(1)>>)>>),
            Forall("B", Tt, "auto", <<Let("B", Bin("+", V("B"), I(1)))>>), For("K", I(1), I(2), NoExpr, "auto", <<PutS(<<V("K")>>)>>),
            Let("A", Str("retyped")), Let("I", Str("s")), Let("E", Str("s")), Let("B", Str("s")), Let("K", Str("s")) >>

Garbage == <<")", "end", "@", "loop", "\"", "0x", "function">>
Thorough == Env("VERIF_TIER", "quick") = "thorough"

\* Does a complete redefinition of an existing function (F/1, G/1, G/2) of victim vi lie entirely before
\* token position k (for cut) / not contain position k (for del, rep)?  Such a text, when rejected for an
\* error elsewhere, has already replaced the function at compile time (known finding D23).
Existing(s) == s.k = "func" /\ ((s.n = "F" /\ Len(s.ps) = 1) \/ (s.n = "G" /\ Len(s.ps) \in {1, 2}))
StartOf(vi, j) == LET F[i \in 0..Len(vi)] == IF i = 0 THEN 0 ELSE F[i - 1] + Len(TS(vi[i])) IN F[j - 1] + 1
EndOf(vi, j) == StartOf(vi, j) + Len(TS(vi[j])) - 1
RedefBefore(vi, k) == \E j \in DOMAIN vi : Existing(vi[j]) /\ EndOf(vi, j) < k
RedefAway(vi, k) == \E j \in DOMAIN vi : Existing(vi[j]) /\ (k < StartOf(vi, j) \/ k > EndOf(vi, j))
\* texts derived from the token sequence of victim vi: cut after k tokens, delete token k, replace token k
Derived(vi) ==
  LET tk == Tokens(vi) IN
  {[how |-> IF RedefBefore(vi, k + 1) THEN "cut-redef" ELSE "cut", t |-> SubSeq(tk, 1, k)] : k \in 1..(Len(tk) - 1)}
  \cup {[how |-> IF RedefAway(vi, k) THEN "del-redef" ELSE "del", t |-> SubSeq(tk, 1, k - 1) \o SubSeq(tk, k + 1, Len(tk))] : k \in 1..Len(tk)}
  \cup {[how |-> IF RedefAway(vi, k) THEN "rep-redef" ELSE "rep", t |-> SubSeq(tk, 1, k - 1) \o <<Garbage[1 + (k % Len(Garbage))]>> \o SubSeq(tk, k + 1, Len(tk))] : k \in 1..Len(tk)}
  \* thorough tier: every garbage token at every position, a token doubled, two neighbours swapped
  \cup (IF Thorough
        THEN {[how |-> "rep", t |-> SubSeq(tk, 1, k - 1) \o <<Garbage[g]>> \o SubSeq(tk, k + 1, Len(tk))] : k \in 1..Len(tk), g \in DOMAIN Garbage}
             \cup {[how |-> "dup", t |-> SubSeq(tk, 1, k) \o <<tk[k]>> \o SubSeq(tk, k + 1, Len(tk))] : k \in 1..Len(tk)}
             \cup {[how |-> "swap", t |-> SubSeq(tk, 1, k - 1) \o <<tk[k + 1], tk[k]>> \o SubSeq(tk, k + 2, Len(tk))] : k \in 1..(Len(tk) - 1)}
        ELSE {})

\* AST-level edits: one nested body (loop, block, handler, branch, function) loses all its statements - not a valid text
RECURSIVE Emptied(_), EmptiedIn(_)
EmptiedIn(s) ==   \* variants of statement s in which one (nested) body has lost all its statements
  CASE s.k \in {"while", "for", "forall", "func"} -> {[s EXCEPT !.b = <<>>]} \cup {[s EXCEPT !.b = x] : x \in Emptied(s.b)}
    [] s.k = "begin" -> {[s EXCEPT !.b = <<>>]} \cup {[s EXCEPT !.b = x] : x \in Emptied(s.b)}
                        \cup UNION {{[s EXCEPT !.hs[j].b = <<>>]} \cup {[s EXCEPT !.hs[j].b = x] : x \in Emptied(s.hs[j].b)} : j \in DOMAIN s.hs}
    [] s.k = "if" -> UNION {{[s EXCEPT !.cs[j].b = <<>>]} \cup {[s EXCEPT !.cs[j].b = x] : x \in Emptied(s.cs[j].b)} : j \in DOMAIN s.cs}
                     \cup (IF s.el = <<>> THEN {} ELSE {[s EXCEPT !.el = x] : x \in Emptied(s.el)})
    [] OTHER -> {}
Emptied(ss) == UNION {{[ss EXCEPT ![j] = x] : x \in EmptiedIn(ss[j])} : j \in DOMAIN ss}
StmtDeleted(vi) == {[how |-> "sdel", t |-> Tokens(x)] : x \in Emptied(vi)}

VARIABLE p
Init == p \in UNION {{[v |-> v, d |-> x] : x \in Derived(Victims[v])} : v \in DOMAIN Victims}
              \cup {[v |-> v, d |-> [how |-> "whole", t |-> Tokens(Victims[v])]] : v \in DOMAIN Victims}
              \cup UNION {{[v |-> v, d |-> x] : x \in StmtDeleted(Victims[v])} : v \in DOMAIN Victims}
Next == UNCHANGED p
Scenario(q) ==
  LET mode == Env("GEN_MODE", "exec") IN
  [prop |-> "C11", key |-> q.d.how,
   steps |-> << [op |-> "exec", ctx |-> 0, ast |-> Prefix, text |-> Render(Prefix)],
                [op |-> "dump", ctx |-> 0] >> \o
              (IF q.d.how = "whole"
               THEN << [op |-> mode, ctx |-> 0, ast |-> Victims[q.v], text |-> Text(q.d.t)], [op |-> "dump", ctx |-> 0] >>
               ELSE << [op |-> mode, ctx |-> 0, maybe_reject |-> TRUE, ast |-> <<>>, text |-> Text(q.d.t)], [op |-> "dump", ctx |-> 0],
                       [op |-> "exec", ctx |-> 0, ast |-> Probe, text |-> Render(Probe)], [op |-> "dump", ctx |-> 0] >>)]
Emit == PrintT("@@S " \o ToJson(Scenario(p)))
=============================================================================
