INIT Init
NEXT Next
CONSTANT Dev = {"handler_error_keeps_level"}
INVARIANT RefinesBatch
INVARIANT NoResidueBatch
INVARIANT RefinesStepwise
INVARIANT NoResidueStepwise
CHECK_DEADLOCK FALSE
