----------------------------- MODULE BlocTokens -----------------------------
(***************************************************************************)
(* Token-level rendering of ASTs (same grammar as Bloc!Render): the text   *)
(* of a program is the tokens joined by blanks, which lets generators cut  *)
(* or corrupt a program at every token position (C11, C01, C13).           *)
(***************************************************************************)
EXTENDS Bloc

RECURSIVE TE(_), TArgs(_), TS(_), TList(_), THandlers(_), TIfs(_, _)
Flat(ss) == LET F[i \in 0..Len(ss)] == IF i = 0 THEN <<>> ELSE F[i - 1] \o ss[i] IN F[Len(ss)]
Sep(ss, sep) == \* sequences ss[1] sep ss[2] ...
  LET F[i \in 0..Len(ss)] == IF i = 0 THEN <<>> ELSE IF i = 1 THEN ss[1] ELSE F[i - 1] \o <<sep>> \o ss[i] IN F[Len(ss)]

TLit(v) ==
  CASE v.t = "int" -> IF v.v < 0 THEN <<"(", "-", ToString(-v.v), ")">> ELSE <<ToString(v.v)>>
    [] v.t = "dec" -> IF v.h < 0 THEN <<"(", "-", DecLit(-v.h), ")">> ELSE <<DecLit(v.h)>>
    [] v.t = "str" -> <<"\"" \o v.v \o "\"">>
    [] v.t = "bool" -> <<IF v.v THEN "true" ELSE "false">>
    [] OTHER -> <<RLit(v)>>

TArgs(es) == Sep([i \in DOMAIN es |-> TE(es[i])], ",")

TE(e) ==
  CASE e.k = "lit"  -> TLit(e.v)
    [] e.k = "null" -> <<"null">>
    [] e.k = "var"  -> <<e.n>>
    [] e.k = "paren" -> <<"(">> \o TE(e.a) \o <<")">>
    [] e.k = "un"   -> <<"(", e.op>> \o TE(e.a) \o <<")">>
    [] e.k = "bin"  -> <<"(">> \o TE(e.a) \o <<e.op>> \o TE(e.b) \o <<")">>
    [] e.k = "call" -> IF e.f = "error" THEN <<"error">> ELSE <<e.f, "(">> \o TArgs(e.as) \o <<")">>
    [] e.k = "ucall" -> <<e.f, "(">> \o TArgs(e.as) \o <<")">>
    [] e.k = "mem"  -> TE(e.r) \o (IF e.m = "set" THEN <<".", "set", "@", ToString(e.i), "(">> ELSE <<".", e.m, "(">>) \o TArgs(e.as) \o <<")">>
    [] e.k = "item" -> TE(e.a) \o <<"@", ToString(e.i)>>
    [] OTHER -> <<RE_(e)>>

TList(ss) == Flat([i \in DOMAIN ss |-> TS(ss[i])])
THandlers(hs) == Flat([i \in DOMAIN hs |-> <<"when", hs[i].w, "then">> \o TList(hs[i].b)])
TIfs(cs, first) ==
  IF cs = <<>> THEN <<>>
  ELSE <<IF first THEN "if" ELSE "elsif">> \o TE(Head(cs).c) \o <<"then">> \o TList(Head(cs).b) \o TIfs(Tail(cs), FALSE)

TS(s) ==
  CASE s.k = "nop" -> <<"nop", ";">>
    [] s.k = "let" -> <<s.n, "=">> \o TE(s.e) \o <<";">>
    [] s.k = "letn" -> <<s.n, ":", TypeKw(s.ty), ";">>
    [] s.k = "do"  -> TE(s.e) \o <<";">>
    [] s.k = "print" -> <<"print">> \o Flat([i \in DOMAIN s.es |-> TE(s.es[i])]) \o <<";">>
    [] s.k = "put" -> <<"put">> \o Flat([i \in DOMAIN s.es |-> TE(s.es[i])]) \o <<";">>
    [] s.k = "if" -> TIfs(s.cs, TRUE) \o (IF s.el = <<>> THEN <<>> ELSE <<"else">> \o TList(s.el)) \o <<"end", "if", ";">>
    [] s.k = "while" -> <<"while">> \o TE(s.c) \o <<"loop">> \o TList(s.b) \o <<"end", "loop", ";">>
    [] s.k = "for" -> <<"for", s.n, "in">> \o TE(s.a) \o <<"to">> \o TE(s.b2)
                      \o (IF s.st.k = "none" THEN <<>> ELSE <<"step">> \o TE(s.st))
                      \o (IF s.dir = "auto" THEN <<>> ELSE <<s.dir>>) \o <<"loop">> \o TList(s.b) \o <<"end", "loop", ";">>
    [] s.k = "forall" -> <<"forall", s.n, "in">> \o TE(s.t) \o (IF s.dir = "auto" THEN <<>> ELSE <<s.dir>>)
                      \o <<"loop">> \o TList(s.b) \o <<"end", "loop", ";">>
    [] s.k = "break" -> <<"break", ";">>
    [] s.k = "continue" -> <<"continue", ";">>
    [] s.k = "return" -> IF s.e.k = "none" THEN <<"return", ";">> ELSE <<"return">> \o TE(s.e) \o <<";">>
    [] s.k = "raise" -> <<"raise", s.n, ";">>
    [] s.k = "begin" -> <<"begin">> \o TList(s.b) \o (IF s.hs = <<>> THEN <<>> ELSE <<"exception">> \o THandlers(s.hs)) \o <<"end", ";">>
    [] s.k = "func" -> <<"function", s.n, "(">> \o Sep([i \in DOMAIN s.ps |-> <<s.ps[i]>>], ",") \o <<")", "return", "undefined", "is", "begin">> \o TList(s.b) \o <<"end", ";">>
    [] OTHER -> <<"?", ";">>

Tokens(prog) == TList(prog)
Text(toks) == Join(toks, " ")
=============================================================================
