------------------------------ MODULE Gen_C16 ------------------------------
(* Scenario generator for C16: every history of BlocPlugin of length MaxLen, rendered as harness steps.   *)
EXTENDS BlocPlugin, Json

CtorText(m, form) == IF form = "default" THEN m \o "()" ELSE IF m = "csv" THEN "csv(\";\")" ELSE IF m = "utf8" THEN "utf8(\"ab\")" ELSE m \o "()"
\* the path of an import written as a literal, as a call, as an expression that starts with a name
PathText(m, f) == IF f = "call" THEN "import str(\"@MOD:" \o m \o "@\");"
                  ELSE IF f = "expr" THEN "PP = \"@MOD:" \o m \o "@\"; import PP + \"\";"
                  ELSE "import \"@MOD:" \o m \o "@\";"
StepOfF(h, f) ==
  CASE h.a = "unban" -> <<[op |-> "unban", m |-> h.m, act |-> h]>>
    [] h.a = "clear" -> <<[op |-> "clearperm", act |-> h]>>
    [] h.a = "deinit" -> <<[op |-> "deinit", act |-> h]>>
    [] h.a = "settrust" -> <<[op |-> "settrust", ctx |-> h.c, on |-> h.on, act |-> h]>>
    [] h.a = "clone" -> <<[op |-> "clone", ctx |-> h.c, from |-> h.from, act |-> h]>>
    [] h.a = "import" -> <<[op |-> "exec", ctx |-> h.c, capi |-> TRUE, text |-> "import " \o h.m \o ";", act |-> h], [op |-> "dump", ctx |-> h.c]>>
    [] h.a = "importpath" -> <<[op |-> "exec", ctx |-> h.c, text |-> PathText(h.m, f), act |-> h], [op |-> "dump", ctx |-> h.c]>>
    [] h.a = "include" -> <<[op |-> "exec", ctx |-> h.c, text |-> "include \"@INC@\";", act |-> h], [op |-> "dump", ctx |-> h.c]>>
    [] h.a = "decl" -> <<[op |-> "exec", ctx |-> h.c, text |-> "D" \o h.m \o ":" \o h.m \o ";", act |-> h], [op |-> "dump", ctx |-> h.c]>>
    [] h.a = "ctor" ->
         IF h.where = "top"
         THEN <<[op |-> "exec", ctx |-> h.c, capi |-> TRUE, text |-> "O" \o h.m \o " = " \o CtorText(h.m, h.form) \o ";", act |-> h], [op |-> "dump", ctx |-> h.c]>>
         ELSE <<[op |-> "exec", ctx |-> h.c, text |-> "function MK" \o h.m \o "() return object is begin return " \o CtorText(h.m, h.form) \o "; end;\nP" \o h.m \o " = MK" \o h.m \o "();", act |-> h],
                [op |-> "dump", ctx |-> h.c]>>
RECURSIVE StepsOf(_, _)
StepsOf(hs, f) == IF hs = <<>> THEN <<>> ELSE StepOfF(Head(hs), f) \o StepsOf(Tail(hs), f)
Scenario(f) == [prop |-> "C16", key |-> "hist",
                steps |-> <<[op |-> "new", ctx |-> 0, trusted |-> TRUE], [op |-> "new", ctx |-> 1, trusted |-> FALSE]>> \o StepsOf(hist, f)]
\* the other spellings only where the specification refuses every import by path of the history (an untrusted context): they must be
\* refused as well (the call spelling is no path at all for the grammar: the word is taken for a module name)
HasPath == (\E j \in DOMAIN hist : hist[j].a = "importpath") /\ (\A j \in DOMAIN hist : hist[j].a = "importpath" => ~hist[j].ok)
Emit == Len(hist) < MaxLen + Len(Prefix) \/ (PrintT("@@S " \o ToJson(Scenario("lit")))
                                              /\ (~HasPath \/ (PrintT("@@S " \o ToJson(Scenario("call"))) /\ PrintT("@@S " \o ToJson(Scenario("expr"))))))
=============================================================================
