INIT InitAll
NEXT Stutter
INVARIANT EmitAll
CHECK_DEADLOCK FALSE
