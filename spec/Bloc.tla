------------------------------- MODULE Bloc -------------------------------
(***************************************************************************)
(* Ideal layer of the BLOC abstract machine: values, expressions,          *)
(* statements, functions, errors -- written from the reference manual and  *)
(* the property statements (not from the C++ mechanism).  Values are pure  *)
(* mathematical values, so aliasing is impossible by construction; an      *)
(* error is a value that propagates to the nearest matching handler; a     *)
(* call is a function of its arguments.                                    *)
(*                                                                         *)
(* The same module renders ASTs to source text (Render), so the text the   *)
(* implementation receives is produced by the specification itself.        *)
(*                                                                         *)
(* Number domain: TLC integers (|n| < 2^31).  Generators keep all          *)
(* intermediate results far below that; 64-bit behaviour is the subject of *)
(* Int64.tla.  Decimals are the dyadic subset k/2, stored as h = 2*value.  *)
(***************************************************************************)
EXTENDS Integers, Sequences, FiniteSets, TLC

(* ------------------------------- types -------------------------------- *)
T(m)        == [m |-> m, l |-> 0, d |-> <<>>]
TUndef      == T("undef")
\* type of the null read from a variable that is declared (assigned somewhere in compiled text) but was
\* never assigned at run time: the manual does not pin the type of that null, so it is a wildcard
TAny        == T("any")
TBool       == T("bool")
TInt        == T("int")
TDec        == T("dec")
TStr        == T("str")
TRaw        == T("raw")
TRow(d)     == [m |-> "row", l |-> 0, d |-> d]
TTab(et)    == [et EXCEPT !.l = @ + 1]          \* table whose elements have type et
ElemType(tt) == [tt EXCEPT !.l = @ - 1]

(* ------------------------------- values ------------------------------- *)
VNull(ty)   == [t |-> "null", ty |-> ty]
VNil        == VNull(TUndef)
\* a null never carries a tuple structure ("a null tuple has no structure")
NullOf(ty)  == VNull([ty EXCEPT !.d = <<>>])
VBool(b)    == [t |-> "bool", v |-> b]
VInt(i)     == [t |-> "int", v |-> i]
VDec(h)     == [t |-> "dec", h |-> h]
VStr(s)     == [t |-> "str", v |-> s]
VRaw(b)     == [t |-> "raw", b |-> b]
VCpx(ha, hb) == [t |-> "cpx", a |-> VDec(ha), b |-> VDec(hb)]
VObj(id)    == [t |-> "obj", id |-> id]          \* reference to a module object (shared by reference, as documented)

IsNull(v)   == v.t = "null"

TypeOf(v) ==
  CASE v.t = "null" -> v.ty
    [] v.t = "bool" -> TBool
    [] v.t = "int"  -> TInt
    [] v.t = "dec"  -> TDec
    [] v.t = "str"  -> TStr
    [] v.t = "raw"  -> TRaw
    [] v.t = "cpx"  -> T("cpx")
    [] v.t = "obj"  -> T("obj")
    [] v.t = "tup"  -> v.ty
    [] v.t = "tab"  -> v.ty
    [] v.t = "bigint" -> TInt
    [] v.t = "bigdec" -> TDec
    [] OTHER        -> TUndef

VTup(items) == [t |-> "tup", ty |-> TRow([i \in DOMAIN items |-> TypeOf(items[i]).m]), v |-> items]
VTab(et, items) == [t |-> "tab", ty |-> TTab(et), v |-> items]

TypeName(ty) ==
  IF ty.l > 0 THEN "table"
  ELSE CASE ty.m = "undef" -> "undefined" [] ty.m = "bool" -> "boolean" [] ty.m = "int" -> "integer"
         [] ty.m = "dec" -> "decimal" [] ty.m = "str" -> "string" [] ty.m = "raw" -> "bytes"
         [] ty.m = "row" -> "tuple" [] ty.m = "obj" -> "object" [] ty.m = "cpx" -> "complex"
         [] OTHER -> "?"

(* text of a value as `print` / `str` show it (only for the printable scalar subset) *)
DecText(h) ==
  LET a == IF h < 0 THEN -h ELSE h
      s == IF h < 0 THEN "-" ELSE ""
  IN  IF a % 2 = 0 THEN s \o ToString(a \div 2) ELSE s \o ToString(a \div 2) \o ".5"

\* an item inside the text of a tuple: strings are quoted, bytes only tell their size
ItemText(v) ==
  CASE v.t = "null" -> "null"
    [] v.t = "bool" -> IF v.v THEN "TRUE" ELSE "FALSE"
    [] v.t = "int"  -> ToString(v.v)
    [] v.t = "dec"  -> DecText(v.h)
    [] v.t = "str"  -> "\"" \o v.v \o "\""
    [] v.t = "raw"  -> "bytes[" \o ToString(Len(v.b)) \o "]"
    [] OTHER        -> "?"
PrintText(v) ==
  CASE v.t = "null" -> "null"
    [] v.t = "bool" -> IF v.v THEN "TRUE" ELSE "FALSE"
    [] v.t = "int"  -> ToString(v.v)
    [] v.t = "dec"  -> DecText(v.h)
    [] v.t = "str"  -> v.v
    [] v.t = "tup"  -> LET J[i \in 0..Len(v.v)] == IF i = 0 THEN "" ELSE IF i = 1 THEN ItemText(v.v[1]) ELSE J[i - 1] \o ", " \o ItemText(v.v[i]) IN J[Len(v.v)]
    [] OTHER        -> "?"

\* number of references to object id held inside a value (variables, table elements, tuple items)
RECURSIVE RefsIn(_, _)
RefsIn(v, id) ==
  CASE v.t = "obj" -> IF v.id = id THEN 1 ELSE 0
    [] v.t \in {"tab", "tup"} -> LET F[j \in 0..Len(v.v)] == IF j = 0 THEN 0 ELSE F[j - 1] + RefsIn(v.v[j], id) IN F[Len(v.v)]
    [] OTHER -> 0

(* ------------------------------- errors ------------------------------- *)
NoErr           == [kind |-> "", name |-> ""]
Err(k, n)       == [kind |-> k, name |-> n]
EDiv            == Err("DIVIDE_BY_ZERO", "DIVIDE_BY_ZERO")
ERange          == Err("OUT_OF_RANGE", "OUT_OF_RANGE")
EUser(n)        == Err("USER", n)
EOther(what)    == Err("OTHER", what)           \* not catchable: stops the program
Catchable(e)    == e.kind \in {"USER", "DIVIDE_BY_ZERO", "OUT_OF_RANGE"}
\* the text `error@1` yields in a handler
ErrName(e)      == e.name
Matches(w, e)   == \/ w = "OTHERS" /\ Catchable(e)
                   \/ e.kind \in {"DIVIDE_BY_ZERO", "OUT_OF_RANGE"} /\ w = e.kind
                   \/ e.kind = "USER" /\ w = e.name /\ w \notin {"DIVIDE_BY_ZERO", "OUT_OF_RANGE", "OTHERS"}

(* ------------------------------- state -------------------------------- *)
\* vars  : function from a set of names to values (one frame; functions get a fresh frame)
\* funcs : sequence of [n, ps, b] (later definition of same name/arity replaces)
\* out   : text written so far
\* depth : current nesting of user calls
\* sig   : "" | "brk" | "cont" | "ret" | "err"      err : error record     rv : returned value
\* cerr  : error being handled (for error@1/@2)
NoFrame == [x \in {} |-> VNil]
\* inloop: number of loops of the current frame that are running (break/continue outside a loop do nothing)
State0  == [vars |-> NoFrame, funcs |-> <<>>, out |-> "", depth |-> 0, inloop |-> 0,
            sig |-> "", err |-> NoErr, rv |-> VNil, hasrv |-> FALSE, cerr |-> NoErr,
            nobj |-> 0,         \* module objects created so far (identities 1..nobj, process-wide)
            otags |-> <<>>,     \* tag of each object
            oev |-> <<>>,       \* create / method events the module must have seen, in order
            locked |-> {},      \* variables being traversed by forall: read-only until the loop is left
            itype |-> NoFrame,  \* loop variables of the running loops: the exact type they must keep (the element type of the
                                \* traversed table, integer for a for loop) for as long as the loop runs
            fl |-> -1,          \* length of out at the last flush of the stream (-1: nothing flushed since out was reset)
            unk |-> FALSE]      \* unk: the trace monitor lost track of this context (after an unpinned step)

SetVar(S, n, v) == [S EXCEPT !.vars = [x \in (DOMAIN S.vars) \cup {n} |-> IF x = n THEN v ELSE S.vars[x]]]
Raise(S, e)     == [S EXCEPT !.sig = "err", !.err = e]
Failed(S)       == S.sig = "err"

\* result of an expression evaluation
R(S, v)   == [S |-> S, v |-> v]
RE(S, e)  == [S |-> Raise(S, e), v |-> VNil]

NoExpr == [k |-> "none"]

(* --------------------------- scalar operators ------------------------- *)
IsNum(v)  == TypeOf(v).l = 0 /\ TypeOf(v).m \in {"int", "dec"}
NumH(v)   == IF v.t = "int" THEN 2 * v.v ELSE v.h          \* value in half units
Trunc(a, b) == \* integer division truncating toward zero, b # 0
  LET q == (IF a < 0 THEN -a ELSE a) \div (IF b < 0 THEN -b ELSE b)
  IN  IF (a < 0) # (b < 0) THEN -q ELSE q
RECURSIVE IPow(_, _)
IPow(a, n) == IF n = 0 THEN 1 ELSE a * IPow(a, n - 1)

\* result type of an arithmetic operator on two operand types (numeric promotion)
ArithType(t1, t2) ==
  IF t1.m = "any" \/ t2.m = "any" THEN TAny
  ELSE IF t1.m = "int" /\ t2.m = "int" THEN TInt
  ELSE IF t1.m = "undef" /\ t2.m = "undef" THEN TDec
  ELSE IF t1.m = "undef" THEN t2
  ELSE IF t2.m = "undef" THEN t1
  ELSE TDec

Arith(op, S, a, b) ==
  LET ta == TypeOf(a)  tb == TypeOf(b) IN
  IF op = "+" /\ ta.l = 0 /\ tb.l = 0 /\ (ta.m = "str" \/ tb.m = "str") THEN
       \* string concatenation; a null operand leaves the other string
       IF ta.m = "str" /\ tb.m = "str" THEN
            IF IsNull(a) THEN R(S, b) ELSE IF IsNull(b) THEN R(S, a) ELSE R(S, VStr(a.v \o b.v))
       ELSE IF ta.m = "str" /\ tb.m = "undef" THEN R(S, a)
       ELSE IF ta.m = "undef" /\ tb.m = "str" THEN R(S, b)
       ELSE RE(S, EOther("type"))
  ELSE IF ~(ta.l = 0 /\ tb.l = 0 /\ ta.m \in {"int", "dec", "undef", "any"} /\ tb.m \in {"int", "dec", "undef", "any"})
       THEN RE(S, EOther("type"))
  ELSE IF IsNull(a) \/ IsNull(b) THEN R(S, VNull(ArithType(ta, tb)))
  ELSE IF a.t = "int" /\ b.t = "int" THEN
       CASE op = "+" -> R(S, VInt(a.v + b.v))
         [] op = "-" -> R(S, VInt(a.v - b.v))
         [] op = "*" -> R(S, VInt(a.v * b.v))
         [] op = "/" -> IF b.v = 0 THEN RE(S, EDiv) ELSE R(S, VInt(Trunc(a.v, b.v)))
         [] op = "%" -> IF b.v = 0 THEN RE(S, EDiv) ELSE R(S, VInt(a.v - b.v * Trunc(a.v, b.v)))
         [] op = "**" -> IF b.v >= 0 THEN R(S, VInt(IPow(a.v, b.v))) ELSE RE(S, EOther("wide"))
  ELSE \* at least one decimal: only + and - stay inside the dyadic subset
       CASE op = "+" -> R(S, VDec(NumH(a) + NumH(b)))
         [] op = "-" -> R(S, VDec(NumH(a) - NumH(b)))
         [] op = "*" -> IF (NumH(a) * NumH(b)) % 2 = 0 THEN R(S, VDec((NumH(a) * NumH(b)) \div 2)) ELSE RE(S, EOther("wide"))
         [] op = "/" -> IF NumH(b) = 0 THEN RE(S, EDiv) ELSE RE(S, EOther("wide"))
         [] OTHER -> RE(S, EOther("wide"))

\* relational: null if either operand is null (3VL)
Cmp3(a, b) == IF a < b THEN -1 ELSE IF a > b THEN 1 ELSE 0
RelHolds(op, c) ==
  CASE op = "==" -> c = 0 [] op = "!=" -> c # 0 [] op = "<" -> c < 0
    [] op = "<=" -> c <= 0 [] op = ">" -> c > 0 [] op = ">=" -> c >= 0

Rel(op, S, a, b) ==
  LET ta == TypeOf(a)  tb == TypeOf(b) IN
  IF ta.l # 0 \/ tb.l # 0 THEN RE(S, EOther("type"))
  ELSE IF IsNull(a) \/ IsNull(b) THEN R(S, VNull(TBool))
  ELSE IF IsNum(a) /\ IsNum(b) THEN R(S, VBool(RelHolds(op, Cmp3(NumH(a), NumH(b)))))
  ELSE IF a.t = "bool" /\ b.t = "bool" THEN
       R(S, VBool(RelHolds(op, Cmp3(IF a.v THEN 1 ELSE 0, IF b.v THEN 1 ELSE 0))))
  ELSE IF a.t = "str" /\ b.t = "str" /\ op \in {"==", "!="} THEN R(S, VBool((a.v = b.v) = (op = "==")))
  ELSE RE(S, EOther("wide"))

\* Kleene three-valued logic; operands are boolean-typed or untyped null
IsB3(v)  == TypeOf(v).l = 0 /\ (v.t = "bool" \/ (v.t = "null" /\ v.ty.m \in {"bool", "undef", "any"}))
B3(v)    == IF v.t = "bool" THEN (IF v.v THEN "T" ELSE "F") ELSE "N"
FromB3(x) == IF x = "T" THEN VBool(TRUE) ELSE IF x = "F" THEN VBool(FALSE) ELSE VNull(TBool)
And3(x, y) == IF x = "F" \/ y = "F" THEN "F" ELSE IF x = "T" /\ y = "T" THEN "T" ELSE "N"
Or3(x, y)  == IF x = "T" \/ y = "T" THEN "T" ELSE IF x = "F" /\ y = "F" THEN "F" ELSE "N"
Xor3(x, y) == IF x = "N" \/ y = "N" THEN "N" ELSE IF x = y THEN "F" ELSE "T"
Not3(x)    == IF x = "N" THEN "N" ELSE IF x = "T" THEN "F" ELSE "T"
Truthy(v)  == v.t = "bool" /\ v.v          \* null and false make a condition false

ArithOps == {"+", "-", "*", "/", "%", "**"}
RelOps   == {"==", "!=", "<", "<=", ">", ">="}
LogOps   == {"and", "or", "xor"}
BitOps   == {"&", "|", "^", "<<", ">>"}

(* ------------------------------ containers ---------------------------- *)
\* int <-> decimal mixing: a number put into a table of the other numeric kind is converted
Coerce(v, et) ==
  IF v.t = "int" /\ et.l = 0 /\ et.m = "dec" THEN VDec(2 * v.v)
  ELSE IF v.t = "dec" /\ et.l = 0 /\ et.m = "int" /\ v.h % 2 = 0 THEN VInt(v.h \div 2)
  ELSE IF v.t = "null" /\ v.ty.m \in {"undef", "any"} /\ v.ty.l = 0 THEN VNull(et)
  ELSE IF v.t = "null" /\ v.ty.l = 0 /\ et.l = 0 /\ v.ty.m \in {"int", "dec"} /\ et.m \in {"int", "dec"} THEN VNull(et)
  ELSE v
Fits(v, et) == TypeOf(Coerce(v, et)) = et
\* element arguments whose treatment the manual does not pin down (accepted with a conversion or rejected):
\* a fractional decimal into an integer slot, an untyped null into a slot of tuples
Unpinned(v, et) == \/ v.t = "dec" /\ et = TInt /\ v.h % 2 # 0
                   \/ v.t = "null" /\ v.ty.m \in {"undef", "any", "row"} /\ v.ty.l = 0 /\ et.m = "row" /\ et.l = 0
\* concat additionally: a number of the other numeric kind, a null table
UnpinnedConcat(v, et) == \/ Unpinned(v, et)
                         \/ et.l = 0 /\ et.m \in {"int", "dec"} /\ TypeOf(v).l = 0 /\ TypeOf(v).m \in {"int", "dec"} /\ TypeOf(v) # et
                         \/ v.t = "null" /\ v.ty.l > 0

SeqInsert(s, i, x) == SubSeq(s, 1, i) \o <<x>> \o SubSeq(s, i + 1, Len(s))      \* insert before 0-based position i
SeqDelete(s, i)    == SubSeq(s, 1, i) \o SubSeq(s, i + 2, Len(s))              \* delete 0-based position i
SeqPut(s, i, x)    == [s EXCEPT ![i + 1] = x]
Rep(n, x)          == [i \in 1..n |-> x]

\* Symbolic 64-bit boundary constants.  The ideal layer computes with mathematical integers, so a
\* program that never overflows behaves the same whether INT64_MAX is 2^63-1 or the stand-in BigM:
\* generators use [k |-> "bigc", base, off] only in positions where that holds (loop bounds, and
\* differences of two such constants).  Rendered as the real 64-bit literal.
BigM == 500000000
BigVal(e) == IF e.base = "MAX" THEN BigM + e.off ELSE (-BigM - 1) + e.off

\* characters <-> byte codes for the small alphabet generated programs use in strings
Alphabet == <<"a", "b", "c", "d", "x", "y", "z", "q", "n", "A", "B", "C", "X", "Y", "Z", "_", " ", "0", "1", "9">>
AlphaCode == <<97, 98, 99, 100, 120, 121, 122, 113, 110, 65, 66, 67, 88, 89, 90, 95, 32, 48, 49, 57>>
CodeOf(c) == LET idx == {j \in DOMAIN Alphabet : Alphabet[j] = c} IN IF idx = {} THEN -1 ELSE AlphaCode[CHOOSE j \in idx : TRUE]
ChrOf(n)  == LET idx == {j \in DOMAIN AlphaCode : AlphaCode[j] = n} IN IF idx = {} THEN "?" ELSE Alphabet[CHOOSE j \in idx : TRUE]
KnownCode(n) == \E j \in DOMAIN AlphaCode : AlphaCode[j] = n
StrIns(str, i, x) == SubSeq(str, 1, i) \o x \o SubSeq(str, i + 1, Len(str))       \* before 0-based position i
StrDel(str, i)    == SubSeq(str, 1, i) \o SubSeq(str, i + 2, Len(str))
StrPut(str, i, c) == SubSeq(str, 1, i) \o c \o SubSeq(str, i + 2, Len(str))

(* ------------------------------ evaluation ---------------------------- *)
RECURSIVE Eval(_, _), EvalArgs(_, _, _), ExecList(_, _), Exec(_, _), WhileLoop(_, _, _),
          ForLoop(_, _, _, _, _, _), ForallLoop(_, _, _, _, _), Handle(_, _, _), IfChain(_, _, _),
          CallUser(_, _, _), EvalMember(_, _), StorePath(_, _, _), LoadPath(_, _)

Fuel == 60      \* bound on loop iterations in generated programs (exceeding it is a spec failure)

FindFunc(S, n, ar) ==
  LET idx == {i \in DOMAIN S.funcs : S.funcs[i].n = n /\ Len(S.funcs[i].ps) = ar}
  IN  IF idx = {} THEN 0 ELSE CHOOSE i \in idx : \A j \in idx : j <= i

\* A "place" is a variable or an element of a place reached by .at(i); in-place methods mutate places.
IsPlace(e) == e.k = "var" \/ (e.k = "mem" /\ e.m = "at" /\ e.r.k \in {"var", "mem"})

RECURSIVE RootVar(_)
RootVar(e) == IF e.k = "var" THEN e.n ELSE RootVar(e.r)

\* evaluate argument list left to right
EvalArgs(es, S, acc) ==
  IF es = <<>> THEN [S |-> S, vs |-> acc]
  ELSE LET r == Eval(Head(es), S) IN
       IF Failed(r.S) THEN [S |-> r.S, vs |-> acc]
       ELSE EvalArgs(Tail(es), r.S, Append(acc, r.v))

Builtin(f, S, vs) ==
  CASE f = "isnull" -> R(S, VBool(IsNull(vs[1])))
    [] f = "typeof" -> R(S, VStr(TypeName(TypeOf(vs[1]))))
    [] f = "bool" -> IF vs = <<>> THEN R(S, VNull(TBool))
                     ELSE IF IsNull(vs[1]) THEN R(S, VNull(TBool))
                     ELSE IF IsNum(vs[1]) THEN R(S, VBool(NumH(vs[1]) # 0)) ELSE RE(S, EOther("type"))
    [] f = "int"  -> IF vs = <<>> THEN R(S, VNull(TInt))
                     ELSE IF IsNull(vs[1]) THEN R(S, VNull(TInt))
                     ELSE IF vs[1].t = "int" THEN R(S, vs[1])
                     ELSE IF vs[1].t = "dec" THEN R(S, VInt(Trunc(vs[1].h, 2))) ELSE RE(S, EOther("wide"))
    [] f = "num"  -> IF vs = <<>> THEN R(S, VNull(TDec))
                     ELSE IF IsNull(vs[1]) THEN R(S, VNull(TDec))
                     ELSE IF IsNum(vs[1]) THEN R(S, VDec(NumH(vs[1]))) ELSE RE(S, EOther("wide"))
    [] f = "str"  -> IF vs = <<>> THEN R(S, VNull(TStr))
                     ELSE IF IsNull(vs[1]) THEN R(S, VNull(TStr))
                     ELSE IF vs[1].t \in {"int", "dec", "str"} THEN R(S, VStr(PrintText(vs[1]))) ELSE RE(S, EOther("wide"))
    [] f = "raw"  -> IF vs = <<>> THEN R(S, VNull(TRaw))
                     ELSE IF Len(vs) = 2 /\ vs[1].t = "int" /\ vs[1].v >= 0 /\ vs[2].t = "int" /\ vs[2].v >= 0 /\ vs[2].v <= 255
                          THEN R(S, VRaw(Rep(vs[1].v, vs[2].v)))
                     ELSE RE(S, EOther("wide"))
    [] f = "tup"  -> IF vs = <<>> THEN R(S, VNull(TRow(<<>>)))
                     ELSE IF \E i \in DOMAIN vs : TypeOf(vs[i]).m \in {"undef", "row"} \/ TypeOf(vs[i]).l > 0
                          THEN RE(S, EOther("tuple item"))
                          ELSE R(S, VTup(vs))
    [] f = "tab"  -> IF vs = <<>> THEN R(S, VNull(TTab(TUndef)))
                     ELSE IF IsNull(vs[1]) \/ vs[1].t # "int" THEN RE(S, EOther("wide"))
                     ELSE IF TypeOf(vs[2]).m = "undef" \/ (IsNull(vs[2]) /\ (TypeOf(vs[2]).m = "row" \/ TypeOf(vs[2]).l > 0))
                          THEN RE(S, EOther("table elem"))
                     ELSE IF vs[1].v < 0 THEN RE(S, EOther("wide"))
                     ELSE R(S, VTab(TypeOf(vs[2]), Rep(vs[1].v, vs[2])))
    [] f = "chr"  -> IF IsNull(vs[1]) THEN R(S, VNull(TStr))
                     ELSE IF vs[1].t = "int" /\ (vs[1].v < 0 \/ vs[1].v > 255) THEN RE(S, ERange)
                     ELSE RE(S, EOther("wide"))
    [] f = "error" -> R(S, VTup(<<VStr(S.cerr.name), VStr("")>>))
    [] f = "random" -> R(S, VDec(1))      \* a documented global input: some non-null decimal (generators only test isnull)
    [] OTHER -> RE(S, EOther("wide"))

\* read the value at a place
LoadPath(e, S) ==
  IF e.k = "var" THEN
     IF e.n \in DOMAIN S.vars THEN R(S, S.vars[e.n]) ELSE R(S, VNull(TAny))
  ELSE \* .at(i)
     LET rr == LoadPath(e.r, S) IN
     IF Failed(rr.S) THEN rr
     ELSE LET ri == Eval(e.as[1], rr.S) IN
          IF Failed(ri.S) THEN ri
          ELSE IF rr.v.t # "tab" \/ ri.v.t # "int" THEN RE(ri.S, EOther("at"))
          ELSE IF ri.v.v < 0 \/ ri.v.v >= Len(rr.v.v) THEN RE(ri.S, EOther("index"))
          ELSE R(ri.S, rr.v.v[ri.v.v + 1])

\* write value v at a place (indices are re-evaluated; generators use side-effect-free indices)
StorePath(e, S, v) ==
  IF e.k = "var" THEN SetVar(S, e.n, v)
  ELSE LET rr == LoadPath(e.r, S)
           ri == Eval(e.as[1], S)
       IN  StorePath(e.r, S, [rr.v EXCEPT !.v = SeqPut(@, ri.v.v, v)])

\* member call  e = [k |-> "mem", m, r, as]
EvalMember(e, S) ==
  LET rr == IF IsPlace(e.r) THEN LoadPath(e.r, S) ELSE Eval(e.r, S) IN
  IF Failed(rr.S) THEN rr
  ELSE LET ra == EvalArgs(e.as, rr.S, <<>>) IN
  IF Failed(ra.S) THEN RE(ra.S, ra.S.err)
  ELSE
    LET S1 == ra.S   x == rr.v   vs == ra.vs
        n  == IF x.t \in {"tab", "tup"} THEN Len(x.v) ELSE IF x.t = "str" THEN Len(x.v) ELSE IF x.t = "raw" THEN Len(x.b) ELSE 0
        \* position argument: an integer inside lo..hi
        PosIn(v, lo, hi) == v.t = "int" /\ v.v >= lo /\ v.v <= hi
        IsByte(v) == v.t = "int" /\ v.v >= 0 /\ v.v <= 255
        \* result of an in-place method: new receiver value nv, written back when the receiver is a place
        Done(nv) == IF IsPlace(e.r)
                    THEN IF RootVar(e.r) \in S1.locked THEN RE(S1, EOther("const"))      \* table under forall
                         ELSE R(StorePath(e.r, S1, nv), nv)
                    ELSE R(S1, nv)
    IN
    CASE x.t = "obj" ->      \* a method of the verification module: executed on the referenced object
           LET S2 == [S1 EXCEPT !.oev = Append(@, [e |-> "method", id |-> x.id, name |-> e.m, args |-> vs])] IN
           CASE e.m = "id" -> R(S2, VInt(x.id))
             [] e.m = "tag" -> R(S2, VInt(S1.otags[x.id]))
             [] e.m = "echo" -> R(S2, vs[1])
             [] e.m = "sum" -> IF IsNull(vs[1]) \/ IsNull(vs[2]) THEN R(S2, VNull(TDec)) ELSE R(S2, VDec(2 * vs[1].v + vs[2].h))
             [] e.m = "self" -> R(S2, x)
             [] e.m = "settag" -> R([S2 EXCEPT !.otags[x.id] = IF IsNull(vs[1]) THEN @ ELSE vs[1].v], x)
             [] e.m = "other" -> IF IsNull(vs[1]) THEN R(S2, VNull(TInt)) ELSE R(S2, VInt(vs[1].id))
             [] e.m = "fail" -> RE(S2, EOther("method failed"))
             [] OTHER -> RE(S1, EOther("wide"))
      [] e.m = "count" ->
           IF IsNull(x) THEN R(S1, VNull(TInt))
           ELSE IF x.t \in {"tab", "tup", "str", "raw"} THEN R(S1, VInt(n)) ELSE RE(S1, EOther("wide"))
      [] x.t \in {"str", "raw"} /\ e.m \in {"at", "put", "insert", "delete"} ->
           \* strings and bytes: positions 0-based, elements are byte codes
           IF e.m \in {"put", "insert"} /\ Len(vs) = 2 /\ ~IsNull(vs[2]) /\ {x.t, vs[2].t} # {"raw", "str"}
              /\ vs[2].t \notin (IF e.m = "put" THEN {"int"} ELSE {"int", x.t}) THEN RE(S1, EOther("type"))
           ELSE IF e.m = "put" /\ Len(vs) = 2 /\ vs[2].t \in {"str", "raw"} THEN RE(S1, EOther("type"))
           ELSE IF e.m = "insert" /\ Len(vs) = 2 /\ {x.t, vs[2].t} = {"raw", "str"} THEN RE(S1, EOther("wide"))
           ELSE IF TypeOf(vs[1]) # TInt THEN RE(S1, EOther("type"))
           ELSE IF IsNull(vs[1]) THEN RE(S1, EOther("index"))
           ELSE IF e.m = "at" THEN
                IF ~PosIn(vs[1], 0, n - 1) THEN RE(S1, EOther("index"))
                ELSE IF x.t = "raw" THEN R(S1, VInt(x.b[vs[1].v + 1]))
                ELSE LET c == CodeOf(SubSeq(x.v, vs[1].v + 1, vs[1].v + 1)) IN IF c < 0 THEN RE(S1, EOther("wide")) ELSE R(S1, VInt(c))
           ELSE IF e.m = "delete" THEN
                IF Len(vs) # 1 THEN RE(S1, EOther("wide"))
                ELSE IF ~PosIn(vs[1], 0, n - 1) THEN RE(S1, EOther("index"))
                ELSE Done(IF x.t = "raw" THEN VRaw(SeqDelete(x.b, vs[1].v)) ELSE VStr(StrDel(x.v, vs[1].v)))
           ELSE IF e.m = "put" THEN
                IF IsNull(vs[2]) THEN RE(S1, EOther("wide"))
                ELSE IF vs[2].t # "int" THEN RE(S1, EOther("type"))
                ELSE IF ~PosIn(vs[1], 0, n - 1) THEN RE(S1, EOther("index"))
                ELSE IF ~IsByte(vs[2]) THEN RE(S1, ERange)
                ELSE IF x.t = "raw" THEN Done(VRaw(SeqPut(x.b, vs[1].v, vs[2].v)))
                ELSE IF ~KnownCode(vs[2].v) THEN RE(S1, EOther("wide")) ELSE Done(VStr(StrPut(x.v, vs[1].v, ChrOf(vs[2].v))))
           ELSE \* insert
                IF IsNull(vs[2]) THEN RE(S1, EOther("wide"))
                ELSE IF {x.t, vs[2].t} = {"raw", "str"} THEN RE(S1, EOther("wide"))
                ELSE IF vs[2].t \notin {"int", x.t} THEN RE(S1, EOther("type"))
                ELSE IF ~PosIn(vs[1], 0, n) THEN RE(S1, EOther("index"))
                ELSE IF vs[2].t = "int" THEN
                     IF ~IsByte(vs[2]) THEN RE(S1, ERange)
                     ELSE IF x.t = "raw" THEN Done(VRaw(SeqInsert(x.b, vs[1].v, vs[2].v)))
                     ELSE IF ~KnownCode(vs[2].v) THEN RE(S1, EOther("wide")) ELSE Done(VStr(StrIns(x.v, vs[1].v, ChrOf(vs[2].v))))
                ELSE IF x.t = "str" /\ vs[2].t = "str" THEN Done(VStr(StrIns(x.v, vs[1].v, vs[2].v)))
                ELSE IF x.t = "raw" /\ vs[2].t = "raw" THEN Done(VRaw(SubSeq(x.b, 1, vs[1].v) \o vs[2].b \o SubSeq(x.b, vs[1].v + 1, n)))
                ELSE IF {x.t, vs[2].t} = {"raw", "str"} THEN RE(S1, EOther("wide"))
                ELSE RE(S1, EOther("type"))
      [] x.t \in {"str", "raw"} /\ e.m = "concat" ->
           IF IsNull(vs[1]) THEN RE(S1, EOther("wide"))
           ELSE IF vs[1].t = "int" THEN
                IF ~IsByte(vs[1]) THEN RE(S1, ERange)
                ELSE IF x.t = "raw" THEN Done(VRaw(Append(x.b, vs[1].v)))
                ELSE IF ~KnownCode(vs[1].v) THEN RE(S1, EOther("wide")) ELSE Done(VStr(x.v \o ChrOf(vs[1].v)))
           ELSE IF x.t = "str" /\ vs[1].t = "str" THEN Done(VStr(x.v \o vs[1].v))
           ELSE IF x.t = "raw" /\ vs[1].t = "raw" THEN Done(VRaw(x.b \o vs[1].b))
           ELSE IF {x.t, vs[1].t} = {"raw", "str"} THEN RE(S1, EOther("wide"))
           ELSE RE(S1, EOther("type"))
      [] x.t = "tab" /\ e.m \in {"at", "put", "insert", "delete"} /\ TypeOf(vs[1]) # TInt ->
           RE(S1, EOther("type"))                 \* a position is an integer (possibly a null one)
      [] x.t = "tab" /\ e.m \in {"put", "insert"} /\ Len(vs) = 2
           /\ ~(e.m = "insert" /\ vs[2].t = "tab" /\ vs[2].ty = x.ty) /\ ~Unpinned(vs[2], ElemType(x.ty))
           /\ ~(vs[2].t = "null" /\ vs[2].ty.l > 0) /\ ~Fits(vs[2], ElemType(x.ty)) ->
           RE(S1, EOther("type"))                 \* compile-time checks come before any position check
      [] x.t \in {"str", "raw"} /\ e.m \in {"put", "insert"} /\ Len(vs) = 2 /\ ~IsNull(vs[2])
           /\ vs[2].t \notin (IF e.m = "put" THEN {"int"} ELSE {"int", "str", "raw"}) ->
           RE(S1, EOther("type"))
      [] e.m = "at" ->
           IF IsNull(x) \/ IsNull(vs[1]) THEN RE(S1, EOther("index"))
           ELSE IF x.t = "tab" /\ vs[1].t = "int" THEN
                IF vs[1].v < 0 \/ vs[1].v >= n THEN RE(S1, EOther("index")) ELSE R(S1, x.v[vs[1].v + 1])
           ELSE RE(S1, EOther("wide"))
      [] e.m = "put" ->
           IF IsNull(x) \/ IsNull(vs[1]) THEN RE(S1, EOther("index"))
           ELSE IF x.t = "tab" /\ vs[1].t = "int" THEN
                IF Unpinned(vs[2], ElemType(x.ty)) THEN RE(S1, EOther("wide"))
                ELSE IF ~Fits(vs[2], ElemType(x.ty)) THEN RE(S1, EOther("type"))      \* compile-time checks come first
                ELSE IF vs[1].v < 0 \/ vs[1].v >= n THEN RE(S1, EOther("index"))
                ELSE Done([x EXCEPT !.v = SeqPut(@, vs[1].v, Coerce(vs[2], ElemType(x.ty)))])
           ELSE RE(S1, EOther("wide"))
      [] e.m = "insert" ->
           IF IsNull(x) \/ IsNull(vs[1]) THEN RE(S1, EOther("index"))
           ELSE IF x.t = "tab" /\ vs[1].t = "int" THEN
                IF ~(vs[2].t = "tab" /\ vs[2].ty = x.ty) /\ ~Unpinned(vs[2], ElemType(x.ty)) /\ ~(vs[2].t = "null" /\ vs[2].ty.l > 0)
                   /\ ~Fits(vs[2], ElemType(x.ty)) THEN RE(S1, EOther("type"))
                ELSE IF vs[1].v < 0 \/ vs[1].v > n THEN RE(S1, EOther("index"))
                ELSE IF vs[2].t = "tab" /\ vs[2].ty = x.ty THEN
                     Done([x EXCEPT !.v = SubSeq(@, 1, vs[1].v) \o vs[2].v \o SubSeq(@, vs[1].v + 1, n)])
                ELSE IF Unpinned(vs[2], ElemType(x.ty)) \/ (vs[2].t = "null" /\ vs[2].ty.l > 0) THEN RE(S1, EOther("wide"))
                ELSE IF ~Fits(vs[2], ElemType(x.ty)) THEN RE(S1, EOther("type"))
                ELSE Done([x EXCEPT !.v = SeqInsert(@, vs[1].v, Coerce(vs[2], ElemType(x.ty)))])
           ELSE RE(S1, EOther("wide"))
      [] e.m = "delete" ->
           IF IsNull(x) \/ IsNull(vs[1]) THEN RE(S1, EOther("index"))
           ELSE IF x.t = "tab" /\ vs[1].t = "int" /\ Len(vs) = 1 THEN
                IF vs[1].v < 0 \/ vs[1].v >= n THEN RE(S1, EOther("index"))
                ELSE Done([x EXCEPT !.v = SeqDelete(@, vs[1].v)])
           ELSE RE(S1, EOther("wide"))
      [] e.m = "concat" ->
           IF IsNull(x) THEN RE(S1, EOther("wide"))
           ELSE IF x.t = "tab" THEN
                IF vs[1].t = "tab" /\ vs[1].ty = x.ty THEN Done([x EXCEPT !.v = @ \o vs[1].v])
                ELSE IF UnpinnedConcat(vs[1], ElemType(x.ty)) THEN RE(S1, EOther("wide"))
                ELSE IF ~Fits(vs[1], ElemType(x.ty)) THEN RE(S1, EOther("type"))
                ELSE Done([x EXCEPT !.v = Append(@, Coerce(vs[1], ElemType(x.ty)))])
           ELSE IF x.t = "str" /\ vs[1].t = "str" THEN Done(VStr(x.v \o vs[1].v))
           ELSE RE(S1, EOther("wide"))
      [] e.m = "set" -> \* tuple mutator  x.set@i(v)   e.i = rank
           IF IsNull(x) \/ x.t # "tup" THEN RE(S1, EOther("wide"))
           ELSE IF e.i < 1 \/ e.i > n THEN RE(S1, EOther("rank"))
           ELSE IF Unpinned(vs[1], T(x.ty.d[e.i])) THEN RE(S1, EOther("wide"))
           ELSE IF ~Fits(vs[1], T(x.ty.d[e.i])) THEN RE(S1, EOther("type"))
           ELSE Done([x EXCEPT !.v = [@ EXCEPT ![e.i] = Coerce(vs[1], T(x.ty.d[e.i]))]])
      [] OTHER -> RE(S1, EOther("wide"))

CallUser(e, S, vs) ==
  LET fi == FindFunc(S, e.f, Len(vs)) IN
  IF fi = 0 THEN RE(S, EOther("undefined function"))
  ELSE IF S.depth >= 255 THEN RE(S, EOther("recursion"))
  ELSE
    LET f  == S.funcs[fi]
        S1 == [S EXCEPT !.vars = [x \in {f.ps[i] : i \in DOMAIN f.ps} |->
                                    vs[CHOOSE i \in DOMAIN f.ps : f.ps[i] = x]],
                        !.depth = @ + 1, !.rv = VNil, !.hasrv = FALSE, !.cerr = NoErr, !.inloop = 0, !.locked = {}, !.itype = NoFrame]
        S2 == ExecList(f.b, S1)
        back == [S2 EXCEPT !.vars = S.vars, !.depth = S.depth, !.rv = S.rv, !.hasrv = S.hasrv, !.cerr = S.cerr, !.inloop = S.inloop, !.locked = S.locked, !.itype = S.itype]
    IN  IF Failed(S2) THEN [S |-> back, v |-> VNil]
        ELSE R([back EXCEPT !.sig = ""], IF S2.sig = "ret" /\ S2.hasrv THEN S2.rv ELSE VNil)

Eval(e, S) ==
  CASE e.k = "lit"  -> R(S, e.v)
    [] e.k = "null" -> R(S, VNil)
    [] e.k = "bigc" -> R(S, VInt(BigVal(e)))
    [] e.k = "octor" -> \* constructor of the verification module: vobj(tag) or the copy constructor vobj(obj)
         LET ra == EvalArgs(e.as, S, <<>>) IN
         IF Failed(ra.S) THEN [S |-> ra.S, v |-> VNil]
         ELSE LET a == ra.vs[1]  S1 == ra.S  id == S1.nobj + 1 IN
              IF IsNull(a) THEN RE(S1, EOther("ctor"))
              ELSE IF a.t = "int" THEN
                   IF a.v = 666 THEN RE(S1, EOther("ctor"))
                   ELSE R([S1 EXCEPT !.nobj = id, !.otags = Append(@, a.v),
                                     !.oev = Append(@, [e |-> "create", id |-> id, tag |-> a.v])], VObj(id))
              ELSE IF a.t = "obj" THEN
                   R([S1 EXCEPT !.nobj = id, !.otags = Append(@, S1.otags[a.id] + 1000),
                                !.oev = Append(@, [e |-> "create", id |-> id, tag |-> S1.otags[a.id] + 1000])], VObj(id))
              ELSE RE(S1, EOther("type"))
    [] e.k = "ii" -> R(S, VCpx(0, 2))             \* the imaginary unit
    [] e.k = "itemraw" -> \* tuple accessor with a rank too wide for TLC: always out of range
         LET r == Eval(e.a, S) IN
         IF Failed(r.S) THEN r ELSE IF r.v.t # "tup" THEN RE(r.S, EOther("wide")) ELSE RE(r.S, EOther("rank"))
    [] e.k = "rawint" -> R(S, VInt(e.v))          \* an integer literal too wide for TLC, standing for "huge"
    [] e.k = "var"  -> IF e.n \in DOMAIN S.vars THEN R(S, S.vars[e.n]) ELSE R(S, VNull(TAny))
    [] e.k = "paren" -> Eval(e.a, S)
    [] e.k = "un" ->
         LET r == Eval(e.a, S) IN
         IF Failed(r.S) THEN r
         ELSE CASE e.op = "not" -> IF IsB3(r.v) THEN R(r.S, FromB3(Not3(B3(r.v)))) ELSE RE(r.S, EOther("type"))
                [] e.op = "-"   -> IF IsNull(r.v) /\ TypeOf(r.v).l = 0 /\ TypeOf(r.v).m \in {"int", "dec"} THEN R(r.S, r.v)
                                   ELSE IF r.v.t = "int" THEN R(r.S, VInt(-r.v.v))
                                   ELSE IF r.v.t = "dec" THEN R(r.S, VDec(-r.v.h)) ELSE RE(r.S, EOther("wide"))
                [] OTHER -> RE(r.S, EOther("wide"))
    [] e.k = "bin" ->
         LET ra == Eval(e.a, S) IN
         IF Failed(ra.S) THEN ra
         ELSE IF e.op \in {"and", "or"} /\ ra.v.t = "bool" /\ ra.v.v = (e.op = "or")
              THEN R(ra.S, ra.v)                            \* short circuit: false and _, true or _
         ELSE LET rb == Eval(e.b, ra.S) IN
              IF Failed(rb.S) THEN rb
              ELSE IF e.op \in ArithOps THEN Arith(e.op, rb.S, ra.v, rb.v)
              ELSE IF e.op \in RelOps THEN Rel(e.op, rb.S, ra.v, rb.v)
              ELSE IF e.op \in LogOps THEN
                   IF IsB3(ra.v) /\ IsB3(rb.v)
                   THEN R(rb.S, FromB3(CASE e.op = "and" -> And3(B3(ra.v), B3(rb.v))
                                          [] e.op = "or"  -> Or3(B3(ra.v), B3(rb.v))
                                          [] e.op = "xor" -> Xor3(B3(ra.v), B3(rb.v))))
                   ELSE RE(rb.S, EOther("type"))
              ELSE RE(rb.S, EOther("wide"))
    [] e.k = "call" ->
         LET ra == EvalArgs(e.as, S, <<>>) IN
         IF Failed(ra.S) THEN [S |-> ra.S, v |-> VNil] ELSE Builtin(e.f, ra.S, ra.vs)
    [] e.k = "ucall" ->
         LET ra == EvalArgs(e.as, S, <<>>) IN
         IF Failed(ra.S) THEN [S |-> ra.S, v |-> VNil] ELSE CallUser(e, ra.S, ra.vs)
    [] e.k = "mem" -> EvalMember(e, S)
    [] e.k = "item" -> \* tuple accessor  a@i
         LET r == Eval(e.a, S) IN
         IF Failed(r.S) THEN r
         ELSE IF r.v.t # "tup" THEN RE(r.S, EOther("wide"))
         ELSE IF e.i < 1 \/ e.i > Len(r.v.v) THEN RE(r.S, EOther("rank"))
         ELSE R(r.S, r.v.v[e.i])
    [] OTHER -> RE(S, EOther("wide"))

(* ------------------------------ statements ---------------------------- *)
SetIt(f, n, ty) == [x \in (DOMAIN f) \cup {n} |-> IF x = n THEN ty ELSE f[x]]
\* exact type equality (a null has no tuple structure)
SameType(t1, t2, isnull) == t1.m = t2.m /\ t1.l = t2.l /\ (isnull \/ t1.m # "row" \/ t1.d = t2.d)
ExecList(ss, S) ==
  IF ss = <<>> \/ S.sig # "" THEN S
  ELSE ExecList(Tail(ss), Exec(Head(ss), S))

IfChain(cs, el, S) ==    \* cs : sequence of [c, b]
  IF cs = <<>> THEN ExecList(el, S)
  ELSE LET r == Eval(Head(cs).c, S) IN
       IF Failed(r.S) THEN r.S
       ELSE IF r.v.t \notin {"bool", "null"} THEN Raise(r.S, EOther("type"))
       ELSE IF Truthy(r.v) THEN ExecList(Head(cs).b, r.S)
       ELSE IfChain(Tail(cs), el, r.S)

WhileLoop(s, S, fuel) ==
  IF fuel = 0 THEN Raise(S, EOther("FUEL"))
  ELSE LET r == Eval(s.c, S) IN
       IF Failed(r.S) THEN r.S
       ELSE IF ~Truthy(r.v) THEN r.S
       ELSE LET S2 == ExecList(s.b, r.S) IN
            IF S2.sig = "brk" THEN [S2 EXCEPT !.sig = ""]
            ELSE IF S2.sig = "cont" THEN WhileLoop(s, [S2 EXCEPT !.sig = ""], fuel - 1)
            ELSE IF S2.sig # "" THEN S2                      \* ret / err leave the loop
            ELSE WhileLoop(s, S2, fuel - 1)

\* for: control variable visits cur, cur+stp, ... while inside [lo, hi]; the body may change it
ForLoop(s, S, lo, hi, stp, fuel) ==
  IF fuel = 0 THEN Raise(S, EOther("FUEL"))
  ELSE LET S2 == ExecList(s.b, S) IN
       IF S2.sig = "brk" THEN [S2 EXCEPT !.sig = ""]
       ELSE IF S2.sig \notin {"", "cont"} THEN S2
       ELSE LET S3 == [S2 EXCEPT !.sig = ""]
                cur == S3.vars[s.n]
                nxt == cur.v + stp
            IN  IF cur.t # "int" THEN Raise(S3, EOther("wide"))
                ELSE IF (stp > 0 /\ nxt > hi) \/ (stp < 0 /\ nxt < lo) THEN S3
                ELSE ForLoop(s, SetVar(S3, s.n, VInt(nxt)), lo, hi, stp, fuel - 1)

\* forall over the table value tv (a copy); element k is bound to the iterator; writes go back when place
ForallLoop(s, S, idxs, isPlace, fuel) ==
  IF idxs = <<>> THEN S
  ELSE LET i  == Head(idxs)
           tv == IF isPlace THEN LoadPath(s.t, S).v ELSE s.tv
           S1 == SetVar(S, s.n, tv.v[i])
           S2 == ExecList(s.b, S1)
           \* write the iterator back into the element it points to
           S3 == IF isPlace /\ s.n \in DOMAIN S2.vars      \* also when the body failed: effects so far persist
                 THEN StorePath(s.t, S2, [LoadPath(s.t, S2).v EXCEPT !.v = SeqPut(@, i - 1, S2.vars[s.n])])
                 ELSE S2
       IN  IF S3.sig = "brk" THEN [S3 EXCEPT !.sig = ""]
           ELSE IF S3.sig \notin {"", "cont"} THEN S3
           ELSE ForallLoop(s, [S3 EXCEPT !.sig = ""], Tail(idxs), isPlace, fuel)

\* exception clauses of a begin block
Handle(hs, e, S) ==
  IF hs = <<>> THEN Raise(S, e)
  ELSE IF Matches(Head(hs).w, e)
       THEN LET S1 == ExecList(Head(hs).b, [S EXCEPT !.sig = "", !.err = NoErr, !.cerr = e])
            IN  [S1 EXCEPT !.cerr = S.cerr]
       ELSE Handle(Tail(hs), e, S)

Exec(s, S) ==
  CASE s.k = "nop" -> S
    [] s.k = "let" -> IF s.n \in S.locked THEN Raise(S, EOther("const"))
                      ELSE LET r == Eval(s.e, S) IN
                           IF Failed(r.S) THEN r.S
                           \* a loop variable keeps the exact type of what it stands for (else the table would not stay uniform)
                           ELSE IF s.n \in DOMAIN S.itype /\ ~SameType(TypeOf(r.v), S.itype[s.n], IsNull(r.v)) THEN Raise(r.S, EOther("type"))
                           ELSE SetVar(r.S, s.n, r.v)
    [] s.k = "letn" -> SetVar(S, s.n, VNull(s.ty))
    [] s.k = "do"  -> Eval(s.e, S).S
    [] s.k = "print" \/ s.k = "put" ->
         \* every expression is evaluated and written in turn (what a function called by a later one prints comes after the
         \* text of the earlier ones; an error leaves what was written before it)
         LET Txt(v) == IF s.k = "put" /\ IsNull(v) THEN "" ELSE PrintText(v)   \* put writes nothing for null
             RECURSIVE Each(_, _)
             Each(S1, j) == IF j > Len(s.es) THEN S1
                            ELSE LET r == Eval(s.es[j], S1) IN
                                 IF Failed(r.S) THEN r.S ELSE Each([r.S EXCEPT !.out = @ \o Txt(r.v)], j + 1)
             S2 == Each(S, 1)
         \* a completed print / put flushes the stream: fl = how much of out has reached the reader (what a failing print had
         \* already written stays in the stream until the next completed one)
         IN  IF Failed(S2) THEN S2 ELSE LET t == S2.out \o (IF s.k = "print" THEN "\n" ELSE "") IN [S2 EXCEPT !.out = t, !.fl = Len(t)]
    [] s.k = "if" -> IfChain(s.cs, s.el, S)
    [] s.k = "while" -> [WhileLoop(s, [S EXCEPT !.inloop = @ + 1], Fuel) EXCEPT !.inloop = S.inloop]
    [] s.k = "for" ->
         LET ra == Eval(s.a, S) IN
         IF Failed(ra.S) THEN ra.S ELSE
         LET rb == Eval(s.b2, ra.S) IN
         IF Failed(rb.S) THEN rb.S ELSE
         LET rs == IF s.st.k = "none" THEN R(rb.S, VInt(1)) ELSE Eval(s.st, rb.S) IN
         IF Failed(rs.S) THEN rs.S
         ELSE IF IsNull(ra.v) \/ IsNull(rb.v) \/ IsNull(rs.v) THEN rs.S          \* a null bound: zero iterations
         ELSE IF ra.v.t # "int" \/ rb.v.t # "int" \/ rs.v.t # "int" THEN Raise(rs.S, EOther("wide"))
         ELSE IF rs.v.v < 1 THEN Raise(rs.S, ERange)
         ELSE LET a == ra.v.v  b == rb.v.v  st == rs.v.v IN
              IF b > a THEN IF s.dir = "desc" THEN rs.S
                            ELSE [ForLoop(s, [SetVar(rs.S, s.n, VInt(a)) EXCEPT !.inloop = @ + 1, !.itype = SetIt(@, s.n, TInt)], a, b, st, Fuel) EXCEPT !.inloop = S.inloop, !.itype = S.itype]
              ELSE IF s.dir = "asc" /\ a # b THEN rs.S
                   ELSE [ForLoop(s, [SetVar(rs.S, s.n, VInt(a)) EXCEPT !.inloop = @ + 1, !.itype = SetIt(@, s.n, TInt)], b, a, -st, Fuel) EXCEPT !.inloop = S.inloop, !.itype = S.itype]
    [] s.k = "forall" ->
         LET pl == IsPlace(s.t)
             rt == IF pl THEN LoadPath(s.t, S) ELSE Eval(s.t, S) IN
         IF Failed(rt.S) THEN rt.S
         ELSE IF IsNull(rt.v) THEN rt.S
         ELSE IF rt.v.t # "tab" THEN Raise(rt.S, EOther("wide"))
         ELSE LET n == Len(rt.v.v)
                  idxs == IF s.dir = "desc" THEN [i \in 1..n |-> n + 1 - i] ELSE [i \in 1..n |-> i]
                  lk == IF pl THEN {RootVar(s.t)} ELSE {}
                  S2 == [ForallLoop([s EXCEPT !.tv = rt.v], [rt.S EXCEPT !.inloop = @ + 1, !.locked = @ \cup lk, !.itype = SetIt(@, s.n, ElemType(rt.v.ty))], idxs, pl, Fuel)
                           EXCEPT !.inloop = S.inloop, !.locked = S.locked, !.itype = S.itype]
              IN  \* after the loop (however it is left) the iterator variable is empty: a null whose type
                  \* the manual does not pin
                  IF n = 0 THEN S2 ELSE SetVar(S2, s.n, VNull(TAny))
    [] s.k = "break" -> IF S.inloop > 0 THEN [S EXCEPT !.sig = "brk"] ELSE S
    [] s.k = "continue" -> IF S.inloop > 0 THEN [S EXCEPT !.sig = "cont"] ELSE S
    [] s.k = "return" ->
         IF s.e.k = "none" THEN [S EXCEPT !.sig = "ret", !.hasrv = FALSE]
         ELSE LET r == Eval(s.e, S) IN
              IF Failed(r.S) THEN r.S ELSE [r.S EXCEPT !.sig = "ret", !.rv = r.v, !.hasrv = TRUE]
    [] s.k = "raise" ->
         Raise(S, IF s.n = "DIVIDE_BY_ZERO" THEN EDiv ELSE IF s.n = "OUT_OF_RANGE" THEN ERange ELSE EUser(s.n))
    [] s.k = "begin" ->
         LET S1 == ExecList(s.b, S) IN
         IF Failed(S1) THEN Handle(s.hs, S1.err, S1) ELSE S1
    \* assignments chained with commas, optionally ended by any other statement: executed in order as one statement
    [] s.k = "chain" -> ExecList(s.ss, S)
    [] s.k = "func" ->
         LET fi == FindFunc(S, s.n, Len(s.ps))
             d  == [n |-> s.n, ps |-> s.ps, b |-> s.b] IN
         IF fi = 0 THEN [S EXCEPT !.funcs = Append(@, d)] ELSE [S EXCEPT !.funcs[fi] = d]
    [] OTHER -> Raise(S, EOther("unknown statement"))

\* Run a whole program in a root state (what Parser::parse + Executable::run promise).
\* break/continue outside of a loop are ignored by the outer run.
RunProgram(prog, S) ==
  LET S1 == ExecList(prog, [S EXCEPT !.sig = "", !.err = NoErr, !.rv = VNil, !.hasrv = FALSE, !.out = ""]) IN
  IF S1.sig \in {"brk", "cont"} THEN [S1 EXCEPT !.sig = ""] ELSE S1

\* A function declaration takes effect when its text is compiled (and again whenever the declaration runs): the
\* declarations at the top level of a program, installed in S
RECURSIVE DeclFuncs(_, _)
DeclFuncs(ast, S) == IF ast = <<>> THEN S
                     ELSE DeclFuncs(Tail(ast), IF Head(ast).k = "func" THEN [Exec(Head(ast), [S EXCEPT !.sig = "", !.err = NoErr]) EXCEPT !.sig = ""] ELSE S)

\* Statement-at-a-time execution (bloc -i, and the Context.h recipe): every top-level statement is
\* compiled and run on its own; an error is reported and the next statement still runs; a top-level
\* return only yields a value.  Result: final state with .out accumulated, .first = first error (or NoErr).
RECURSIVE StepwiseFrom(_, _, _)
StepwiseFrom(prog, S, first) ==
  IF prog = <<>> THEN [S |-> S, first |-> first]
  ELSE LET S1 == Exec(Head(prog), [S EXCEPT !.sig = "", !.err = NoErr])
           f1 == IF first.kind = "" /\ S1.sig = "err" THEN S1.err ELSE first
       IN  StepwiseFrom(Tail(prog), [S1 EXCEPT !.sig = "", !.err = NoErr], f1)
RunStepwise(prog, S) ==
  StepwiseFrom(prog, [S EXCEPT !.sig = "", !.err = NoErr, !.rv = VNil, !.hasrv = FALSE, !.out = ""], NoErr)

\* The bloc command in interactive mode: like RunStepwise, and a top-level return prints the returned value
\* on a line of its own (output_cli).
RvLine(v) == IF IsNull(v) THEN "null\n" ELSE IF v.t \in {"bool", "int", "dec", "str", "tup"} THEN PrintText(v) \o "\n"
             \* a table of scalars is shown by its element type and size
             ELSE IF v.t = "tab" /\ v.ty.l = 1 /\ v.ty.m \in {"bool", "int", "dec", "str"} THEN "[" \o TypeName(ElemType(v.ty)) \o "][" \o ToString(Len(v.v)) \o "]\n"
             ELSE ""
RECURSIVE CliFrom(_, _, _)
CliFrom(prog, S, nerr) ==
  IF prog = <<>> THEN [S |-> S, nerr |-> nerr]
  ELSE LET S1 == Exec(Head(prog), [S EXCEPT !.sig = "", !.err = NoErr, !.hasrv = FALSE])
           S2 == IF S1.sig = "ret" /\ S1.hasrv THEN [S1 EXCEPT !.out = @ \o RvLine(S1.rv)] ELSE S1
       IN  CliFrom(Tail(prog), [S2 EXCEPT !.sig = "", !.err = NoErr], IF S1.sig = "err" THEN nerr + 1 ELSE nerr)
RunCliInteractive(prog, S) == CliFrom(prog, [S EXCEPT !.sig = "", !.err = NoErr, !.rv = VNil, !.hasrv = FALSE, !.out = ""], 0)
\* what `bloc file` prints for the returned value of the program (main.cpp output())
RvText(S) == IF S.sig = "ret" /\ S.hasrv THEN (IF IsNull(S.rv) THEN "null" ELSE IF S.rv.t \in {"bool", "int", "dec", "str", "tup"} THEN PrintText(S.rv) ELSE "") ELSE ""

(* ------------------------------- rendering ---------------------------- *)
RECURSIVE RE_(_), RArgs(_), RS(_), RList(_), RHandlers(_), RIfs(_, _)

Join(ss, sep) ==
  LET J[i \in 0..Len(ss)] == IF i = 0 THEN "" ELSE IF i = 1 THEN ss[1] ELSE J[i - 1] \o sep \o ss[i]
  IN  J[Len(ss)]

IntText(i) == IF i < 0 THEN "(-" \o ToString(-i) \o ")" ELSE ToString(i)
DecLit(h)  == LET a == IF h < 0 THEN -h ELSE h
                  t == ToString(a \div 2) \o (IF a % 2 = 0 THEN ".0" ELSE ".5")
              IN  IF h < 0 THEN "(-" \o t \o ")" ELSE t
TypeKw(ty) == TypeName(ty)

RLit(v) ==
  CASE v.t = "int" -> IntText(v.v)
    [] v.t = "dec" -> DecLit(v.h)
    [] v.t = "str" -> "\"" \o v.v \o "\""
    [] v.t = "bool" -> IF v.v THEN "true" ELSE "false"
    [] v.t = "null" -> (CASE v.ty.m = "undef" -> "null" [] v.ty.m = "bool" -> "bool()" [] v.ty.m = "int" -> "int()"
                          [] v.ty.m = "dec" -> "num()" [] v.ty.m = "str" -> "str()" [] v.ty.m = "raw" -> "raw()"
                          [] v.ty.m = "row" -> "tup()" [] OTHER -> "null")
    [] OTHER -> "?"

RArgs(es) == Join([i \in DOMAIN es |-> RE_(es[i])], ", ")

RE_(e) ==
  CASE e.k = "lit"  -> RLit(e.v)
    [] e.k = "null" -> "null"
    [] e.k = "octor" -> "vobj(" \o RArgs(e.as) \o ")"
    [] e.k = "ii" -> "ii"
    [] e.k = "itemraw" -> RE_(e.a) \o "@" \o e.txt
    [] e.k = "rawint" -> e.txt
    [] e.k = "bigc" -> IF e.base = "MAX" THEN "(9223372036854775807 - " \o ToString(-e.off) \o ")"
                       ELSE "((-9223372036854775807) - 1 + " \o ToString(e.off) \o ")"
    [] e.k = "var"  -> e.n
    [] e.k = "paren" -> "(" \o RE_(e.a) \o ")"
    [] e.k = "un"   -> "(" \o e.op \o " " \o RE_(e.a) \o ")"
    [] e.k = "bin"  -> "(" \o RE_(e.a) \o " " \o e.op \o " " \o RE_(e.b) \o ")"
    [] e.k = "call" -> IF e.f = "error" THEN "error" ELSE e.f \o "(" \o RArgs(e.as) \o ")"
    [] e.k = "ucall" -> e.f \o "(" \o RArgs(e.as) \o ")"
    [] e.k = "mem"  -> RE_(e.r) \o "." \o (IF e.m = "set" THEN "set@" \o ToString(e.i) ELSE e.m) \o "(" \o RArgs(e.as) \o ")"
    [] e.k = "item" -> RE_(e.a) \o "@" \o ToString(e.i)
    [] OTHER -> "?"

\* Rendering with the FEWEST parentheses the grammar of parse_expression.cpp allows (levels: 1 logic,
\* 2 relation, 3 bit logic, 4 shift, 5 sum, 6 term, 7 unary, 8 exponent (right associative), 9 element):
\* the text means the AST only if the parser implements the manual's precedence and associativity.
OpLevel(op) == CASE op \in {"and", "or", "xor", "&&", "||"} -> 1 [] op \in RelOps -> 2 [] op \in {"|", "^", "&"} -> 3
                 [] op \in {"<<", ">>"} -> 4 [] op \in {"+", "-"} -> 5 [] op \in {"*", "/", "%"} -> 6 [] op \in {"**", "power"} -> 8 [] OTHER -> 9
ELevel(e) == IF e.k = "bin" THEN OpLevel(e.op) ELSE IF e.k = "un" THEN 7 ELSE 9
RECURSIVE RM(_, _)
RM(e, min) ==
  LET t == CASE e.k = "bin" ->
                  IF OpLevel(e.op) = 8 THEN RM(e.a, 9) \o " " \o e.op \o " " \o RM(e.b, 8)
                  ELSE IF OpLevel(e.op) = 2 THEN RM(e.a, 3) \o " " \o e.op \o " " \o RM(e.b, 3)      \* relations do not chain
                  ELSE RM(e.a, OpLevel(e.op)) \o " " \o e.op \o " " \o RM(e.b, OpLevel(e.op) + 1)
             [] e.k = "un" -> (IF e.op = "not" THEN "not " ELSE e.op) \o RM(e.a, 8)
             [] e.k = "paren" -> "(" \o RM(e.a, 1) \o ")"
             [] e.k = "call" -> IF e.f = "error" THEN "error" ELSE e.f \o "(" \o Join([i \in DOMAIN e.as |-> RM(e.as[i], 1)], ", ") \o ")"
             [] OTHER -> RE_(e)
  IN  IF ELevel(e) < min THEN "(" \o t \o ")" ELSE t
RMin(e) == RM(e, 1)

RList(ss) == Join([i \in DOMAIN ss |-> RS(ss[i])], " ")

RHandlers(hs) == Join([i \in DOMAIN hs |-> "when " \o hs[i].w \o " then " \o RList(hs[i].b)], " ")

RIfs(cs, first) ==
  IF cs = <<>> THEN ""
  ELSE (IF first THEN "if " ELSE " elsif ") \o RE_(Head(cs).c) \o " then " \o RList(Head(cs).b) \o RIfs(Tail(cs), FALSE)

RS(s) ==
  CASE s.k = "nop" -> "nop;"
    [] s.k = "let" -> s.n \o " = " \o RE_(s.e) \o ";"
    [] s.k = "letn" -> s.n \o ":" \o (IF s.ty.m = "obj" THEN "vobj" ELSE TypeKw(s.ty)) \o ";"      \* objects: the verification module
    [] s.k = "do"  -> RE_(s.e) \o ";"
    [] s.k = "print" -> "print " \o Join([i \in DOMAIN s.es |-> RE_(s.es[i])], " ") \o ";"
    [] s.k = "put" -> "put " \o Join([i \in DOMAIN s.es |-> RE_(s.es[i])], " ") \o ";"
    [] s.k = "if" -> RIfs(s.cs, TRUE) \o (IF s.el = <<>> THEN "" ELSE " else " \o RList(s.el)) \o " end if;"
    [] s.k = "while" -> "while " \o RE_(s.c) \o " loop " \o RList(s.b) \o " end loop;"
    [] s.k = "for" -> "for " \o s.n \o " in " \o RE_(s.a) \o " to " \o RE_(s.b2)
                      \o (IF s.st.k = "none" THEN "" ELSE " step " \o RE_(s.st))
                      \o (IF s.dir = "auto" THEN "" ELSE " " \o s.dir) \o " loop " \o RList(s.b) \o " end loop;"
    [] s.k = "forall" -> "forall " \o s.n \o " in " \o RE_(s.t) \o (IF s.dir = "auto" THEN "" ELSE " " \o s.dir)
                      \o " loop " \o RList(s.b) \o " end loop;"
    [] s.k = "break" -> "break;"
    [] s.k = "continue" -> "continue;"
    [] s.k = "return" -> IF s.e.k = "none" THEN "return;" ELSE "return " \o RE_(s.e) \o ";"
    [] s.k = "raise" -> "raise " \o s.n \o ";"
    [] s.k = "begin" -> "begin " \o RList(s.b) \o (IF s.hs = <<>> THEN "" ELSE " exception " \o RHandlers(s.hs)) \o " end;"
    [] s.k = "chain" -> LET part(x) == LET t == RS(x) IN SubSeq(t, 1, Len(t) - 1) IN Join([i \in DOMAIN s.ss |-> part(s.ss[i])], ", ") \o ";"
    [] s.k = "func" -> "function " \o s.n \o "(" \o Join(s.ps, ", ") \o ") return undefined is begin " \o RList(s.b) \o " end;"
    [] OTHER -> "?;"

Render(prog) == Join([i \in DOMAIN prog |-> RS(prog[i])], "\n")

(* --------------------------- AST constructors ------------------------- *)
Lit(v)          == [k |-> "lit", v |-> v]
I(i)            == Lit(VInt(i))
D(h)            == Lit(VDec(h))
Str(s)          == Lit(VStr(s))
B(b)            == Lit(VBool(b))
NullC           == [k |-> "null"]
BigC(base, off) == [k |-> "bigc", base |-> base, off |-> off]
RawInt(txt, v)  == [k |-> "rawint", txt |-> txt, v |-> v]
II              == [k |-> "ii"]
OCtor(a)        == [k |-> "octor", as |-> <<a>>]
ItemRaw(a, txt) == [k |-> "itemraw", a |-> a, txt |-> txt]
V(n)            == [k |-> "var", n |-> n]
Bin(op, a, b)   == [k |-> "bin", op |-> op, a |-> a, b |-> b]
Un(op, a)       == [k |-> "un", op |-> op, a |-> a]
Call(f, as)     == [k |-> "call", f |-> f, as |-> as]
UCall(f, as)    == [k |-> "ucall", f |-> f, as |-> as]
Mem(r, m, as)   == [k |-> "mem", m |-> m, r |-> r, as |-> as, i |-> 0]
SetAt(r, i, a)  == [k |-> "mem", m |-> "set", r |-> r, as |-> <<a>>, i |-> i]
Item(a, i)      == [k |-> "item", a |-> a, i |-> i]

Let(n, e)       == [k |-> "let", n |-> n, e |-> e]
LetN(n, ty)     == [k |-> "letn", n |-> n, ty |-> ty]
Do(e)           == [k |-> "do", e |-> e]
PrintS(es)      == [k |-> "print", es |-> es]
PutS(es)        == [k |-> "put", es |-> es]
If(c, th, el)   == [k |-> "if", cs |-> <<[c |-> c, b |-> th]>>, el |-> el]
IfN(cs, el)     == [k |-> "if", cs |-> cs, el |-> el]
While(c, b)     == [k |-> "while", c |-> c, b |-> b]
For(n, a, b, st, dir, body) == [k |-> "for", n |-> n, a |-> a, b2 |-> b, st |-> st, dir |-> dir, b |-> body]
Forall(n, t, dir, body)     == [k |-> "forall", n |-> n, t |-> t, dir |-> dir, b |-> body, tv |-> VNil]
Break           == [k |-> "break"]
Continue        == [k |-> "continue"]
Return(e)       == [k |-> "return", e |-> e]
RaiseS(n)       == [k |-> "raise", n |-> n]
Begin(b, hs)    == [k |-> "begin", b |-> b, hs |-> hs]
When(w, b)      == [w |-> w, b |-> b]
Func(n, ps, b)  == [k |-> "func", n |-> n, ps |-> ps, b |-> b]
Nop             == [k |-> "nop"]
Chain(ss)       == [k |-> "chain", ss |-> ss]          \* let {, let} [, statement]
=============================================================================
