----------------------------- MODULE BlocPlugin -----------------------------
(***************************************************************************)
(* Module (plugin) permissions of BLOC, as a state machine over the        *)
(* process-wide registry and a few contexts.                               *)
(*   granted : names the host has unbanned (process-wide, PluginManager)   *)
(*   loaded  : modules loaded in the process (by any context)              *)
(*   ctx     : per context [alive, trusted, objs] ; objs = modules of the  *)
(*             objects the context holds                                   *)
(* Script-level actions are the statements a script can submit; each is    *)
(* one compilation unit (compile + run).  The permission test is made when *)
(* the constructor expression is compiled (expression_complex_ctor.cpp),   *)
(* import by path and include test the trusted flag when they are compiled.*)
(* `hist` records the actions taken: TLC's exploration of this machine is  *)
(* the scenario generator of C16, and Trace_C16 replays recorded runs      *)
(* through the same actions.                                               *)
(***************************************************************************)
EXTENDS Integers, Sequences, FiniteSets, TLC
CONSTANTS Modules, MaxLen,
          Alphabet      \* "full": every action, constructors with arguments;
                        \* "perm": longer histories over the permission-relevant actions only (grant, revoke-all, constructors
                        \*         with and without arguments in the untrusted context), the modules being loaded beforehand

Ctxs == {0, 1, 2}       \* 0: trusted host context (like the CLI), 1: untrusted (embedded default), 2: a clone made later
VARIABLES granted, loaded, ctx, hist
vars == <<granted, loaded, ctx, hist>>

\* "deinit": the host also unloads everything (bloc_deinit_plugins) and a trusted context imports again
ModSeq == CHOOSE q \in [1..Cardinality(Modules) -> Modules] : \A a, b \in DOMAIN q : a # b => q[a] # q[b]
Prefix == IF Alphabet \in {"perm", "deinit"} THEN [j \in DOMAIN ModSeq |-> [a |-> "import", c |-> 0, m |-> ModSeq[j], ok |-> TRUE]] ELSE <<>>
Init == /\ granted = {} /\ loaded = (IF Alphabet \in {"perm", "deinit"} THEN Modules ELSE {})
        /\ ctx = [c \in Ctxs |-> [alive |-> c # 2, trusted |-> c = 0, objs |-> {}]]
        /\ hist = Prefix

Rec(a) == hist' = Append(hist, a)

\* host API
Unban(m) == /\ granted' = granted \cup {m} /\ UNCHANGED <<loaded, ctx>> /\ Rec([a |-> "unban", m |-> m])
ClearPermissions == /\ granted' = {} /\ UNCHANGED <<loaded, ctx>> /\ Rec([a |-> "clear"])
\* bloc_deinit_plugins: every module is unloaded and the permissions are forgotten with the registry.  The host does this only
\* while no context holds an object of a module (assumed precondition: the objects' code would be gone).
Deinit == /\ \A c \in Ctxs : ctx[c].objs = {}
          /\ granted' = {} /\ loaded' = {} /\ UNCHANGED ctx /\ Rec([a |-> "deinit"])
Clone(c, d) == /\ ctx[c].alive /\ ~ctx[d].alive
               /\ ctx' = [ctx EXCEPT ![d] = [alive |-> TRUE, trusted |-> ctx[c].trusted, objs |-> ctx[c].objs]]
               /\ UNCHANGED <<granted, loaded>> /\ Rec([a |-> "clone", c |-> d, from |-> c])

\* the host promotes or demotes a context (Context::trusted(bool)): e.g. set-up text run with full rights, then demoted
SetTrust(c, b) == /\ ctx[c].alive /\ ctx[c].trusted # b
                  /\ ctx' = [ctx EXCEPT ![c].trusted = b] /\ UNCHANGED <<granted, loaded>> /\ Rec([a |-> "settrust", c |-> c, on |-> b])

\* script statements; ok = accepted by the compiler
ImportByName(c, m) == /\ ctx[c].alive /\ loaded' = loaded \cup {m} /\ UNCHANGED <<granted, ctx>>
                      /\ Rec([a |-> "import", c |-> c, m |-> m, ok |-> TRUE])
ImportByPath(c, m) == /\ ctx[c].alive
                      /\ loaded' = IF ctx[c].trusted THEN loaded \cup {m} ELSE loaded
                      /\ UNCHANGED <<granted, ctx>> /\ Rec([a |-> "importpath", c |-> c, m |-> m, ok |-> ctx[c].trusted])
Include(c) == /\ ctx[c].alive /\ UNCHANGED <<granted, loaded, ctx>> /\ Rec([a |-> "include", c |-> c, ok |-> ctx[c].trusted])

CtorAllowed(c, m) == m \in loaded /\ (ctx[c].trusted \/ m \in granted)
\* compile and run  O = m(...)  at top level / inside a function body then called
Ctor(c, m, where, form) ==
                     /\ ctx[c].alive
                     /\ ctx' = IF CtorAllowed(c, m) THEN [ctx EXCEPT ![c].objs = @ \cup {m}] ELSE ctx
                     /\ UNCHANGED <<granted, loaded>>
                     /\ Rec([a |-> "ctor", c |-> c, m |-> m, where |-> where, form |-> form, ok |-> CtorAllowed(c, m), known |-> m \in loaded])
\* a typed declaration  D:m;  creates no object
Decl(c, m) == /\ ctx[c].alive /\ UNCHANGED <<granted, loaded, ctx>> /\ Rec([a |-> "decl", c |-> c, m |-> m, known |-> m \in loaded])

Next == /\ Len(hist) < MaxLen + Len(Prefix)
        /\ IF Alphabet = "perm"
           THEN \/ \E m \in Modules : Unban(m)
                \/ ClearPermissions
                \/ \E m \in Modules, f \in {"args", "default"} : Ctor(1, m, "top", f)
                \/ \E b \in BOOLEAN : SetTrust(1, b)
           ELSE IF Alphabet = "deinit"
           THEN \/ \E m \in Modules : Unban(m) \/ ImportByName(0, m) \/ Ctor(1, m, "top", "args")
                \/ ClearPermissions
                \/ Deinit
           ELSE \/ \E m \in Modules : Unban(m)
                \/ ClearPermissions
                \/ Clone(1, 2) \/ Clone(0, 2)
                \/ \E c \in Ctxs, m \in Modules : ImportByName(c, m) \/ ImportByPath(c, m) \/ Decl(c, m)
                \/ \E c \in Ctxs : Include(c)
                \/ \E c \in Ctxs, m \in Modules, w \in {"top", "func"} : Ctor(c, m, w, "args")
Spec == Init /\ [][Next]_vars

(* ------------------------------ properties ---------------------------- *)
\* ghost: the modules that were granted at the moment some constructor of them was compiled in context c
GrantedAtCompile(c, m) ==
  \E j \in DOMAIN hist : hist[j].a = "ctor" /\ hist[j].m = m /\ hist[j].ok
       /\ (hist[j].c = c \/ (c = 2 /\ \E q \in DOMAIN hist : q > j /\ hist[q].a = "clone" /\ hist[q].from = hist[j].c))
       /\ LET g == {hist[q].m : q \in {q \in 1..(j - 1) : hist[q].a = "unban"
                                        /\ ~\E z \in (q + 1)..(j - 1) : hist[z].a = "clear"}} IN
          m \in g \/ (\E q \in DOMAIN hist : hist[q].a = "clone" /\ hist[q].c = 2 /\ hist[q].from = 0 /\ hist[j].c = 2) \/ hist[j].c = 0
          \* or the context was promoted by the host when the constructor was compiled
          \/ (\E q \in 1..(j - 1) : hist[q].a = "settrust" /\ hist[q].c = hist[j].c /\ hist[q].on
                                     /\ ~\E z \in (q + 1)..(j - 1) : hist[z].a = "settrust" /\ hist[z].c = hist[j].c /\ ~hist[z].on)
\* C16: an untrusted context holds an object of m only if m was granted when its constructor was compiled there
NoUngrantedObject ==
  \A c \in Ctxs : ctx[c].alive /\ ~ctx[c].trusted => \A m \in ctx[c].objs : GrantedAtCompile(c, m)
UntrustedNeverLoadsByPath ==
  \A j \in DOMAIN hist : hist[j].a \in {"importpath", "include"} /\ hist[j].ok => (hist[j].c = 0 \/ (\E q \in 1..(j - 1) : hist[q].a = "clone" /\ hist[q].c = hist[j].c /\ hist[q].from = 0))
TrustedUnrestricted ==
  \A j \in DOMAIN hist : hist[j].a = "ctor" /\ hist[j].c = 0 /\ hist[j].known => hist[j].ok
=============================================================================
