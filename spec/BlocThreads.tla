----------------------------- MODULE BlocThreads -----------------------------
(***************************************************************************)
(* N clones of one context run the same compiled program on N threads.     *)
(* The program is shared (statements, function bodies, constants); every   *)
(* clone has its own storage, control stack and output.  The library uses  *)
(* no synchronisation, so any location written by one thread and accessed  *)
(* by another without being atomic or thread-local is a data race.         *)
(*                                                                         *)
(* Locations touched by one small step of a thread:                         *)
(*   level[s]   execution level stamped into the shared statement s        *)
(*   errbuf     buffer in which an error message is formatted               *)
(*   lasterr    last-error record of the C API                              *)
(*   rng        random generator                                            *)
(*   store[t]   the clone's own variables (private)                         *)
(* Deviations name the locations that are plain shared memory (the pinned   *)
(* tree had all four); with Deviations = {} they are atomic / per thread.   *)
(* TLC explores every interleaving of the threads' steps and checks         *)
(*   NoRace        : no conflicting unsynchronised accesses                  *)
(*   Sequential    : every thread's result is the sequential result          *)
(***************************************************************************)
EXTENDS Integers, Sequences, FiniteSets, TLC
CONSTANTS N, Deviations

\* the shared program: a sequence of steps; each step says what it does
Prog == << [k |-> "assign", v |-> 1], [k |-> "call"], [k |-> "add", v |-> 2], [k |-> "random"], [k |-> "fail"], [k |-> "add", v |-> 5] >>
Threads == 1..N

VARIABLES pc,        \* per thread: next step
          store,     \* per thread: accumulator of the clone (private)
          done,      \* per thread: "run" | "ok" | "error"
          acc        \* set of accesses made so far: [t, loc, w (write?), sync (atomic or thread-local?)]
vars == <<pc, store, done, acc>>

Sync(loc) == CASE loc = "level" -> "DevSharedLevelStamp" \notin Deviations
               [] loc = "errbuf" -> "DevSharedErrorBuffer" \notin Deviations
               [] loc = "lasterr" -> "DevSharedLastError" \notin Deviations
               [] loc = "rng" -> "DevSharedRng" \notin Deviations
               [] OTHER -> TRUE
A(t, loc, w) == [t |-> t, loc |-> loc, w |-> w, sync |-> Sync(loc)]

Init == /\ pc = [t \in Threads |-> 1] /\ store = [t \in Threads |-> 0] /\ done = [t \in Threads |-> "run"] /\ acc = {}

Step(t) ==
  /\ done[t] = "run"
  /\ IF pc[t] > Len(Prog) THEN /\ done' = [done EXCEPT ![t] = "ok"] /\ UNCHANGED <<pc, store, acc>>
     ELSE LET s == Prog[pc[t]]
              \* every statement execution stamps its level into the shared statement object
              stamp == {A(t, "level", TRUE)}
          IN  CASE s.k = "assign" -> /\ store' = [store EXCEPT ![t] = s.v] /\ pc' = [pc EXCEPT ![t] = @ + 1] /\ acc' = acc \cup stamp /\ UNCHANGED done
                [] s.k = "add" -> /\ store' = [store EXCEPT ![t] = @ + s.v] /\ pc' = [pc EXCEPT ![t] = @ + 1] /\ acc' = acc \cup stamp /\ UNCHANGED done
                [] s.k = "call" -> \* the callee's statements are shared too and are stamped as well
                     /\ store' = [store EXCEPT ![t] = @ * 2] /\ pc' = [pc EXCEPT ![t] = @ + 1] /\ acc' = acc \cup stamp /\ UNCHANGED done
                [] s.k = "random" -> /\ pc' = [pc EXCEPT ![t] = @ + 1] /\ acc' = acc \cup stamp \cup {A(t, "rng", TRUE)} /\ UNCHANGED <<store, done>>
                [] s.k = "fail" -> \* an unhandled error: the message is formatted and the last error recorded, the run ends
                     /\ done' = [done EXCEPT ![t] = "error"] /\ acc' = acc \cup stamp \cup {A(t, "errbuf", TRUE), A(t, "lasterr", TRUE)} /\ UNCHANGED <<pc, store>>
Next == \E t \in Threads : Step(t)
Spec == Init /\ [][Next]_vars

NoRace == \A x, y \in acc : x.t # y.t /\ x.loc = y.loc /\ (x.w \/ y.w) => x.sync /\ y.sync
\* the sequential run: 1, *2, +2, random, fail => store 4, outcome error (the last step is not reached)
Sequential == \A t \in Threads : done[t] # "run" => done[t] = "error" /\ store[t] = 4
=============================================================================
