------------------------------ MODULE Gen_C05 ------------------------------
(***************************************************************************)
(* Scenario generator for C05 (value semantics): for each value type, all  *)
(* sequences of up to H statements from an alias-stress pool (copies into  *)
(* variables, tables, tuples, function parameters; in-place methods on     *)
(* either side; element mutation; forall write-through; re-evaluation of   *)
(* the same node in a loop; literals as receivers).  Every statement is    *)
(* followed by a dump of all variables, which TLC compares with the ideal  *)
(* store (pure values: aliasing is impossible in the specification).       *)
(***************************************************************************)
EXTENDS Bloc, Json, IOUtils
Env(n, d) == IF n \in DOMAIN IOEnv THEN IOEnv[n] ELSE d
H == atoi(Env("GEN_DEPTH", "2"))

A == V("A")  Bv == V("B")  Tt == V("T")
At(e, i) == Mem(e, "at", <<I(i)>>)

\* per type: constructor of the initial value, a fresh value, an element value, in-place mutators of a place
Types == {"int", "str", "tabint", "tabstr", "tabtab", "tup"}
Init0(ty) == CASE ty = "int" -> I(5) [] ty = "str" -> Str("ab") [] ty = "tabint" -> Call("tab", <<I(2), I(1)>>)
               [] ty = "tabstr" -> Call("tab", <<I(2), Str("a")>>) [] ty = "tabtab" -> Call("tab", <<I(2), Call("tab", <<I(1), I(1)>>)>>)
               [] ty = "tup" -> Call("tup", <<I(1), Str("a")>>)
Fresh(ty) == CASE ty = "int" -> I(6) [] ty = "str" -> Str("cd") [] ty = "tabint" -> Call("tab", <<I(1), I(8)>>)
               [] ty = "tabstr" -> Call("tab", <<I(1), Str("n")>>) [] ty = "tabtab" -> Call("tab", <<I(1), Call("tab", <<I(2), I(3)>>)>>)
               [] ty = "tup" -> Call("tup", <<I(2), Str("b")>>)
\* statements mutating the place pl in place
Mut(ty, pl) ==
  CASE ty = "int" -> << >>
    [] ty = "str" -> << Do(Mem(pl, "concat", <<Str("z")>>)) >>
    [] ty = "tabint" -> << Do(Mem(pl, "concat", <<I(9)>>)), Do(Mem(pl, "put", <<I(0), I(9)>>)), Do(Mem(pl, "delete", <<I(0)>>)), Do(Mem(pl, "insert", <<I(0), I(4)>>)) >>
    [] ty = "tabstr" -> << Do(Mem(At(pl, 0), "concat", <<Str("z")>>)), Do(Mem(pl, "put", <<I(1), Str("q")>>)), Do(Mem(pl, "concat", <<pl>>)) >>
    [] ty = "tabtab" -> << Do(Mem(At(pl, 0), "put", <<I(0), I(9)>>)), Do(Mem(At(pl, 1), "concat", <<I(9)>>)), Do(Mem(pl, "concat", <<At(pl, 0)>>)) >>
    [] ty = "tup" -> << Do(SetAt(pl, 1, I(9))), Do(SetAt(pl, 2, Str("z"))) >>

FuncFor(ty) ==
  IF ty = "int" THEN Func("FM", <<"P">>, <<Let("P", Bin("+", V("P"), I(1))), Return(V("P"))>>)
  ELSE Func("FM", <<"P">>, Mut(ty, V("P")) \o <<Return(V("P"))>>)

Pool(ty) ==
  << Let("B", A), Let("A", Bv), Let("A", Fresh(ty)), Let("B", Fresh(ty)),
     Let("T", Call("tab", <<I(2), A>>)), Do(Mem(Tt, "put", <<I(0), A>>)), Do(Mem(Tt, "concat", <<Bv>>)),
     Let("B", At(Tt, 0)), Let("A", At(Tt, 1)),
     Let("B", UCall("FM", <<A>>)), Do(UCall("FM", <<A>>)), Let("A", UCall("FM", <<At(Tt, 0)>>)),
     Forall("E", Tt, "auto", <<Let("E", Bv)>>),
     Forall("E", Tt, "auto", IF Mut(ty, V("E")) = <<>> THEN <<Nop>> ELSE Mut(ty, V("E"))),
     For("K", I(1), I(2), NoExpr, "auto", <<Let("C", A), Let("D", UCall("FM", <<V("C")>>))>>),
     Forall("E", Tt, "auto", <<Let("E", Fresh(ty)), Let("C", V("E")), Let("E", V("C")), Let("D", V("E"))>>)
  >> \o Mut(ty, A) \o Mut(ty, Bv) \o Mut(ty, At(Tt, 0))
  \o (IF ty \in {"int", "str"} THEN << Let("U", Call("tup", <<A, Bv>>)), Do(SetAt(V("U"), 1, Bv)), Let("A", Item(V("U"), 2)), Let("B", Item(V("U"), 1)) >> ELSE << >>)
  \o (IF ty = "str" THEN << For("K", I(1), I(2), NoExpr, "auto", <<Let("C", Mem(Str("lit"), "concat", <<A>>)), Let("D", Bin("+", Str("x"), A)), Let("G", Bin("+", A, Str("y")))>>),
                            For("K", I(1), I(2), NoExpr, "auto", <<Let("C", Bin("+", Bin("+", A, Bv), A))>>) >> ELSE << >>)
  \o (IF ty = "int" THEN << For("K", I(1), I(3), NoExpr, "auto", <<Let("C", Bin("+", I(1), A)), Let("A", Bin("+", Bin("*", A, I(2)), Bv))>>),
                            Forall("E", Tt, "auto", <<Let("E", Bin("+", V("E"), I(1))), Let("C", Bin("+", V("C"), V("E"))), Let("D", V("E"))>>) >> ELSE << >>)
  \o (IF ty = "str" THEN << Forall("E", Tt, "auto", <<Let("E", Bin("+", V("E"), Str("!"))), Let("C", Bin("+", V("C"), V("E"))), Let("D", V("E"))>>) >> ELSE << >>)

Prelude(ty) == << FuncFor(ty), Let("A", Init0(ty)), Let("B", Fresh(ty)), Let("T", Call("tab", <<I(2), Init0(ty)>>)), Let("C", Init0(ty)) >>
               \o (IF ty \in {"int", "str"} THEN <<Let("U", Call("tup", <<Init0(ty), Fresh(ty)>>))>> ELSE <<>>)

RECURSIVE Seqs(_, _)
Seqs(n, k) == IF n = 0 THEN {<<>>} ELSE {Append(h, c) : h \in Seqs(n - 1, k), c \in 1..k}

VARIABLE p
Init == p \in {[ty |-> ty, h |-> h] : ty \in Types, h \in {<<>>}} \cup
              UNION {{[ty |-> ty, h |-> h] : h \in UNION {Seqs(n, Len(Pool(ty))) : n \in 1..H}} : ty \in Types}
Next == UNCHANGED p
ExecStep(prog) == [op |-> "exec", ctx |-> 0, ast |-> prog, text |-> Render(prog)]
Scenario(q) ==
  LET pool == Pool(q.ty)
      Steps[j \in 0..Len(q.h)] ==
        IF j = 0 THEN << ExecStep(Prelude(q.ty)), [op |-> "dump", ctx |-> 0] >>
        ELSE Steps[j - 1] \o << ExecStep(<<pool[q.h[j]]>>), [op |-> "dump", ctx |-> 0] >>
  IN [prop |-> "C05", key |-> q.ty, steps |-> Steps[Len(q.h)]]
Emit == PrintT("@@S " \o ToJson(Scenario(p)))
=============================================================================
