------------------------------ MODULE Gen_C10 ------------------------------
(***************************************************************************)
(* Scenario generator for C10: all strings of length <= L over the symbol  *)
(* alphabet {blank, a, A, 7, comma, double quote, z} x the position/count  *)
(* lattice {MIN, -1, 0, 1, n-1, n, n+1, MAX, null}; expected results are   *)
(* computed by TLC from StrBuiltins.tla and travel with the step           *)
(* ("want"); round trips b64dec(b64enc(x)) = x, str/raw, int(str(i)) = i,  *)
(* num(str(d)) = d; isnum(s) <=> num(s) succeeds over numeric-syntax       *)
(* strings; arguments are variables that must be unchanged afterwards.     *)
(***************************************************************************)
EXTENDS Bloc, StrBuiltins, Json, IOUtils, SequencesExt
Env(n, d) == IF n \in DOMAIN IOEnv THEN IOEnv[n] ELSE d
L == IF Env("VERIF_TIER", "quick") = "thorough" THEN 4 ELSE 3

Sym == <<" ", "a", "A", "7", ",", "\"", "z">>
SymLit == <<" ", "a", "A", "7", ",", "\\\"", "z">>           \* the symbol inside a BLOC string literal
RECURSIVE Words(_)
Words(n) == IF n = 0 THEN {<<>>} ELSE {<<>>} \cup {Append(w, k) : w \in Words(n - 1), k \in DOMAIN Sym}
ValOf(w) == LET J[i \in 0..Len(w)] == IF i = 0 THEN "" ELSE J[i - 1] \o Sym[w[i]] IN J[Len(w)]
LitOf(w) == "\"" \o (LET J[i \in 0..Len(w)] == IF i = 0 THEN "" ELSE J[i - 1] \o SymLit[w[i]] IN J[Len(w)]) \o "\""

MaxT == "9223372036854775807"
MinT == "(-9223372036854775807-1)"
\* position lattice: [t |-> text, k |-> "nat" | "neg" | "huge+" | "huge-" | "null", v |-> value when nat]
PE(t, k, v) == [t |-> t, k |-> k, v |-> v]
PosL(n) == {PE("0", "nat", 0), PE("1", "nat", 1), PE(ToString(n), "nat", n), PE(ToString(n + 1), "nat", n + 1), PE("(-1)", "neg", 0),
            PE(MaxT, "huge+", 0), PE(MinT, "huge-", 0), PE("int()", "null", 0)}
           \cup (IF n >= 1 THEN {PE(ToString(n - 1), "nat", n - 1)} ELSE {})
IsNat(p) == p.k = "nat"
Step(t) == [op |-> "expr", ctx |-> 0, text |-> t]
W(t, v) == [op |-> "expr", ctx |-> 0, text |-> t, want |-> v]
E(t, e) == [op |-> "expr", ctx |-> 0, text |-> t, wanterr |-> e]
PartOf(t, x) == [op |-> "expr", ctx |-> 0, text |-> t, wantpart |-> x]
NullAny == [t |-> "nullany"]

\* all checks for one string x (bound to the variable X in the scenario)
ForString(w) ==
  LET x == ValOf(w)  n == Len(x)  xb == Bytes(x) IN
  << W("strlen(X)", VInt(n)), W("upper(X)", VStr(Upper(x))), W("lower(X)", VStr(Lower(x))),
     W("trim(X)", VStr(Trim(x))), W("ltrim(X)", VStr(LTrim(x))), W("rtrim(X)", VStr(RTrim(x))),
     W("raw(X)", VRaw(xb)), W("str(raw(X))", VStr(x)), W("b64dec(b64enc(X))", VRaw(xb)), W("b64dec(b64enc(raw(X)))", VRaw(xb)),
     W("hash(X)", [t |-> "u32", hi |-> HashBytes(xb)[1], lo |-> HashBytes(xb)[2]]), W("hash(raw(X))", [t |-> "u32", hi |-> HashBytes(xb)[1], lo |-> HashBytes(xb)[2]]),
     W("hash(X, 1)", VInt(0)), W("hash(X, 10)", VInt(HalvesMod(HashBytes(xb), 10))), W("hash(X, 1000)", VInt(HalvesMod(HashBytes(xb), 1000))),
     E("hash(X, 0)", "OUT_OF_RANGE"), E("hash(X, (-1))", "OUT_OF_RANGE"),
     W("X.count()", VInt(n)), W("X + X", VStr(x \o x)), W("X == X", VBool(TRUE)) >>
  \o (LET Q == SetToSeq(PosL(n)) IN [j \in DOMAIN Q |-> LET p == Q[j] IN
          IF IsNat(p) /\ p.v <= n THEN W("substr(X, " \o p.t \o ")", VStr(SubstrFrom(x, p.v))) ELSE PartOf("substr(X, " \o p.t \o ")", x)])
  \o (LET Q == SetToSeq({pp \in PosL(n) : pp.k \in {"neg", "huge+"} \/ (pp.k = "nat" /\ pp.v \in {0, 1, n})} \X PosL(n)) IN [j \in DOMAIN Q |-> LET p == Q[j][1]  q == Q[j][2] IN
          IF IsNat(p) /\ p.v <= n /\ IsNat(q) THEN W("substr(X, " \o p.t \o ", " \o q.t \o ")", VStr(Substr(x, p.v, q.v)))
          ELSE PartOf("substr(X, " \o p.t \o ", " \o q.t \o ")", x)])
  \o (LET Q == SetToSeq(PosL(n)) IN [j \in DOMAIN Q |-> LET p == Q[j] IN
          IF IsNat(p) THEN W("lsubstr(X, " \o p.t \o ")", VStr(LSubstr(x, p.v))) ELSE PartOf("lsubstr(X, " \o p.t \o ")", x)])
  \o (LET Q == SetToSeq(PosL(n)) IN [j \in DOMAIN Q |-> LET p == Q[j] IN
          IF IsNat(p) THEN W("rsubstr(X, " \o p.t \o ")", VStr(RSubstr(x, p.v))) ELSE PartOf("rsubstr(X, " \o p.t \o ")", x)])
  \o (LET Q == SetToSeq({<<2>>, <<5>>, <<2, 2>>, <<1>>, w}) IN [j \in DOMAIN Q |-> LET y == ValOf(Q[j]) IN
          W("strpos(X, " \o LitOf(Q[j]) \o ")", IF StrPos(x, y, 0) < 0 THEN NullAny ELSE VInt(StrPos(x, y, 0)))])
  \o (LET Q == SetToSeq({<<2>>, <<5>>, w} \X PosL(n)) IN [j \in DOMAIN Q |-> LET y == ValOf(Q[j][1])  p == Q[j][2] IN
          IF IsNat(p) THEN W("strpos(X, " \o LitOf(Q[j][1]) \o ", " \o p.t \o ")", IF StrPos(x, y, p.v) < 0 THEN NullAny ELSE VInt(StrPos(x, y, p.v)))
          ELSE Step("strpos(X, " \o LitOf(Q[j][1]) \o ", " \o p.t \o ")")])
  \o (LET Q == SetToSeq({<<2>>, <<5>>, <<2, 2>>, <<1>>, <<>>, w}) IN [j \in DOMAIN Q |->
          W("replace(X, " \o LitOf(Q[j]) \o ", \"__\")", VStr(Replace(x, ValOf(Q[j]), "__")))])
  \o << W("replace(X, \"a\", X)", VStr(Replace(x, "a", x))) >>
  \* tokenize: pinned for a non-empty string and a non-empty separator (the values between the separators; empty ones dropped on request)
  \o (IF n >= 1 THEN (LET TabOf(ps) == VTab(TStr, [j \in DOMAIN ps |-> VStr(ps[j])]) IN
                      << W("tokenize(X, \",\")", TabOf(Split(x, ","))), W("tokenize(X, \",\", true)", TabOf(NonEmpty(Split(x, ",")))),
                         W("tokenize(X, \",\", false)", TabOf(Split(x, ","))), W("tokenize(X, \"a \")", TabOf(Split(x, "a "))),
                         W("tokenize(X, X)", TabOf(<<"", "">>)), W("tokenize(X, X, true)", TabOf(<<>>)) >>)
      ELSE << Step("tokenize(X, \",\")"), Step("tokenize(X, \",\", true)"), Step("tokenize(X, X)") >>)
  \o << Step("tokenize(X, \"\")"),
        W("X", VStr(x)) >>                 \* the argument is unchanged after all of this

NumSym == <<" ", "+", "-", "0", "9", ".", "e", "x", "a">>
RECURSIVE NWords(_)
NWords(n) == IF n = 0 THEN {<<>>} ELSE {<<>>} \cup {Append(w, k) : w \in NWords(n - 1), k \in DOMAIN NumSym}
NVal(w) == LET J[i \in 0..Len(w)] == IF i = 0 THEN "" ELSE J[i - 1] \o NumSym[w[i]] IN J[Len(w)]
NumChunks == LET q == SetToSeq(NWords(L)) IN {SubSeq(q, c * 20 + 1, IF (c + 1) * 20 > Len(q) THEN Len(q) ELSE (c + 1) * 20) : c \in 0..((Len(q) - 1) \div 20)}
\* well-formed numerals outside the range of a decimal / of an integer, huge exponents, long digit strings: isnum and num must agree on them too
ExtremeNums == << "1e309", "-1e999", "2e308", "1.7976931348623157e308", "1e-400", "-1e-400", "4.9e-324", "1e308", "9223372036854775807", "9223372036854775808",
                  "-9223372036854775809", "99999999999999999999999999999999999999999", "0.000000000000000000000000000000000000000000000001", "1e", "1e+", "e5", ".e5", "0x", "0x1F", "0x1G",
                  "inf", "nan", "-inf", "Infinity", "1_000", "1,5", "١", "1 2", "+-1", "--1" >>
ForExtreme == LET F[j \in 0..Len(ExtremeNums)] == IF j = 0 THEN <<>> ELSE
                    F[j - 1] \o << Step("isnum(\"" \o ExtremeNums[j] \o "\")"),
                                   [op |-> "expr", ctx |-> 0, text |-> "num(\"" \o ExtremeNums[j] \o "\")", ok_iff_true |-> 2 + 5 * (j - 1)],
                                   Step("int(\"" \o ExtremeNums[j] \o "\")"),
                                   Step("isnum(raw(\"" \o ExtremeNums[j] \o "\"))"),
                                   [op |-> "expr", ctx |-> 0, text |-> "num(raw(\"" \o ExtremeNums[j] \o "\"))", ok_iff_true |-> 5 + 5 * (j - 1)] >>
              IN F[Len(ExtremeNums)]
ForNumStr(ws) == \* pairs: isnum(s), then num(s) / int(s) whose success must match
  LET F[j \in 0..Len(ws)] == IF j = 0 THEN <<>> ELSE
        F[j - 1] \o << Step("isnum(\"" \o NVal(ws[j]) \o "\")"),
                       [op |-> "expr", ctx |-> 0, text |-> "num(\"" \o NVal(ws[j]) \o "\")", ok_iff_true |-> 2 + 3 * (j - 1)],
                       Step("int(\"" \o NVal(ws[j]) \o "\")") >>
  IN F[Len(ws)]

Ints == {0, 1, -1, 7, 255, 256, 65535, 1000000, -1000000, 999999999}
SQ(S) == SetToSeq(S)
Conv ==
  (LET Q == SQ(Ints) IN [j \in DOMAIN Q |-> W("int(str(" \o IntText(Q[j]) \o "))", VInt(Q[j]))])
  \o (LET Q == SQ(Ints) IN [j \in DOMAIN Q |-> W("str(" \o IntText(Q[j]) \o ")", VStr(ToString(Q[j])))])
  \o (LET Q == SQ({0, 1, -1, 3, 5, -5, 255, 1001, -2001}) IN [j \in DOMAIN Q |-> W("num(str(" \o DecLit(Q[j]) \o "))", VDec(Q[j]))])
  \o (LET Q == SQ({0, 1, 15, 16, 255, 4096, 65535, 2147483647}) IN [j \in DOMAIN Q |-> W("hex(" \o ToString(Q[j]) \o ")", VStr(HexNat(Q[j])))])
  \o (LET Q == SQ({0, 15, 255, 4096} \X {0, 1, 2, 4, 8, 16}) IN [j \in DOMAIN Q |-> W("hex(" \o ToString(Q[j][1]) \o ", " \o ToString(Q[j][2]) \o ")", VStr(Hex(Q[j][1], Q[j][2])))])
  \o (LET Q == SQ({"17", "(-1)", "int()", MaxT, MinT}) IN [j \in DOMAIN Q |-> Step("hex(255, " \o Q[j] \o ")")])
  \o (LET Q == SQ({0, 1, 31, 32, 65, 126, 127, 128, 255}) IN [j \in DOMAIN Q |-> W("chr(" \o ToString(Q[j]) \o ")", [t |-> "strb", b |-> <<Q[j]>>])])
  \o (LET Q == SQ({"(-1)", "256", MaxT, MinT, "4294967296", "(-256)"}) IN [j \in DOMAIN Q |-> E("chr(" \o Q[j] \o ")", "OUT_OF_RANGE")])
  \o << W("chr(int())", NullAny), W("strlen(str())", NullAny), W("upper(str())", NullAny), W("substr(str(), 0)", NullAny), W("hash(str())", NullAny), W("b64enc(str())", NullAny) >>
  \o (LET Q == SQ({0, 1, 3} \X {0, 65, 255}) IN [j \in DOMAIN Q |-> W("raw(" \o ToString(Q[j][1]) \o ", " \o ToString(Q[j][2]) \o ")", VRaw([i \in 1..Q[j][1] |-> Q[j][2]]))])
  \o (LET Q == SQ({"256", "(-1)", MaxT}) IN [j \in DOMAIN Q |-> E("raw(2, " \o Q[j] \o ")", "OUT_OF_RANGE")])
  \o (LET Q == SQ({0, 2, 6} \X {0, 1, 3, 9}) IN [j \in DOMAIN Q |->
          W("subraw(raw(\"abcdef\"), " \o ToString(Q[j][1]) \o ", " \o ToString(Q[j][2]) \o ")", VRaw(SubSeq(<<97, 98, 99, 100, 101, 102>>, Q[j][1] + 1, Min(6, Q[j][1] + Q[j][2]))))])

(* 8-bit clean: byte sequences over {NUL, 'A', 0x80, 0xE9, 0xFF}, built byte by byte in the variable Y *)
ByteSym == <<0, 65, 128, 233, 255>>
RECURSIVE BWords(_)
BWords(n) == IF n = 0 THEN {<<>>} ELSE {<<>>} \cup {Append(w, ByteSym[k]) : w \in BWords(n - 1), k \in DOMAIN ByteSym}
BuildY(bs) == <<Let("Y", Call("raw", <<I(0), I(0)>>))>> \o [j \in DOMAIN bs |-> Do(Mem(V("Y"), "concat", <<Call("raw", <<I(1), I(bs[j])>>)>>))]
ForBytes(bs) ==
  LET n == Len(bs) IN
  << W("Y", VRaw(bs)), W("Y.count()", VInt(n)), W("b64enc(Y)", VStr(B64(bs))), W("b64dec(b64enc(Y))", VRaw(bs)),
     W("raw(str(Y))", VRaw(bs)), W("strlen(str(Y))", VInt(n)), W("str(Y)", [t |-> "strb", b |-> bs]),
     W("hash(Y)", [t |-> "u32", hi |-> HashBytes(bs)[1], lo |-> HashBytes(bs)[2]]), W("hash(str(Y))", [t |-> "u32", hi |-> HashBytes(bs)[1], lo |-> HashBytes(bs)[2]]),
     W("subraw(Y, 0, " \o ToString(n) \o ")", VRaw(bs)), W("subraw(Y, 0)", VRaw(bs)), W("Y == Y", VBool(TRUE)) >>
  \o (IF n >= 1 THEN << W("subraw(Y, 1)", VRaw(SubSeq(bs, 2, n))), W("subraw(Y, " \o ToString(n - 1) \o ", 1)", VRaw(<<bs[n]>>)),
                        W("Y.at(" \o ToString(n - 1) \o ")", VInt(bs[n])), W("Y.at(0)", VInt(bs[1])) >> ELSE <<>>)
  \o << W("Y", VRaw(bs)) >>

VARIABLE p
Init == p \in {[k |-> "S", w |-> w] : w \in Words(L)} \cup {[k |-> "N", ws |-> ws] : ws \in NumChunks} \cup {[k |-> "C"], [k |-> "X"]}
              \cup {[k |-> "B", bs |-> bs] : bs \in BWords(L + 1)}
Next == UNCHANGED p
Scenario(q) ==
  CASE q.k = "S" -> [prop |-> "C10", key |-> "S", steps |-> <<[op |-> "exec", ctx |-> 0, free |-> TRUE, text |-> "X = " \o LitOf(q.w) \o ";"]>> \o ForString(q.w)]
    [] q.k = "N" -> [prop |-> "C10", key |-> "N", steps |-> <<[op |-> "exec", ctx |-> 0, free |-> TRUE, text |-> "nop;"]>> \o ForNumStr(q.ws)]
    [] q.k = "B" -> [prop |-> "C10", key |-> "B", steps |-> <<[op |-> "exec", ctx |-> 0, free |-> TRUE, text |-> Render(BuildY(q.bs))]>> \o ForBytes(q.bs)]
    [] q.k = "X" -> [prop |-> "C10", key |-> "X", steps |-> <<[op |-> "exec", ctx |-> 0, free |-> TRUE, text |-> "nop;"]>> \o ForExtreme]
    [] q.k = "C" -> [prop |-> "C10", key |-> "C", steps |-> <<[op |-> "exec", ctx |-> 0, free |-> TRUE, text |-> "nop;"]>> \o Conv]
Emit == PrintT("@@S " \o ToJson(Scenario(p)))
=============================================================================
