---------------------------- MODULE BlocTupleType ----------------------------
(***************************************************************************)
(* Type identity of tuples.  A tuple type is its declaration (the sequence *)
(* of its item types); a table of tuples accepts a tuple exactly when the  *)
(* declarations are equal (C09: every element has the table's structure).  *)
(* The implementation identifies a declaration by a number                 *)
(* (TupleDecl::Decl::make_type): the DJB hash of the item types reduced    *)
(* modulo TYPE_MINOR_MAX = 65535.  With Dev = "hashed_identity" the model  *)
(* uses that number as the identity, with the real hash function and the   *)
(* real type codes: TLC finds two different declarations of <= 4 items     *)
(* with the same number - the known finding D21.  With structural identity *)
(* (Dev = "none") the invariant holds trivially; the model documents what  *)
(* the repair has to establish.                                            *)
(***************************************************************************)
EXTENDS Integers, Sequences, TLC
CONSTANTS Dev, MaxItems
\* type codes of the item types a tuple may have (bloc::Type::TypeMajor): boolean, integer, decimal, string, complex(object), bytes, imaginary
Codes == {1, 2, 3, 4, 6, 9}
RECURSIVE DeclsOf(_)
DeclsOf(n) == IF n = 0 THEN {<<>>} ELSE {Append(d, c) : d \in DeclsOf(n - 1), c \in Codes}
Decls == UNION {DeclsOf(n) : n \in 1..MaxItems}
\* h = h * 33 + code over all items, then modulo 65535; reduced at every step (the same number as long as the
\* 64-bit accumulator of the implementation does not wrap: <= 8 items)
Hash(d) == LET H[i \in 0..Len(d)] == IF i = 0 THEN 5381 % 65535 ELSE (H[i - 1] * 33 + d[i]) % 65535 IN H[Len(d)]
Id(d) == IF Dev = "hashed_identity" THEN <<Hash(d)>> ELSE d

VARIABLES table, item
Init == table \in Decls /\ item \in Decls
Next == UNCHANGED <<table, item>>
Accepts == Id(table) = Id(item)
\* C09: a table only ever accepts tuples of its own structure
UniformTables == Accepts => table = item
=============================================================================
