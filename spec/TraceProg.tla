----------------------------- MODULE TraceProg -----------------------------
(***************************************************************************)
(* Trace validation for program-level scenarios.                           *)
(*                                                                         *)
(* The trace file (NDJSON, path in env TRACE) has one line per scenario:   *)
(*   id, steps (what was asked: op, ctx, ast, text, ...), obs (what the    *)
(*   real library did at each step, recorded by harness/vdrive.cpp), end.  *)
(* One TLC behaviour per scenario: state = (scenario i, steps consumed k,  *)
(* ideal contexts C).  Next consumes step k+1: it applies the ideal layer  *)
(* (Bloc.tla) to the requested operation and compares the recorded         *)
(* observation with what the specification allows.  The monitor is total:  *)
(* a disagreement is reported ("@@V" line) and the rest of the trace is    *)
(* still checked.                                                          *)
(***************************************************************************)
EXTENDS Bloc, Json, IOUtils, StrBuiltins

TraceFile == IF "TRACE" \in DOMAIN IOEnv THEN IOEnv.TRACE ELSE "trace.ndjson"
Scn == ndJsonDeserialize(TraceFile)
N == Len(Scn)

VARIABLES i, k, C, verdict,
          G          \* process-wide registry of module objects: [n, tags, dead]
vars == <<i, k, C, verdict, G>>
G0 == [n |-> 0, tags |-> <<>>, dead |-> {}]

Has(r, f) == f \in DOMAIN r
Fld(r, f, dflt) == IF f \in DOMAIN r THEN r[f] ELSE dflt

(* ideal context of a host-level Context object *)
CtxOf(c, id) == IF id \in DOMAIN c THEN c[id] ELSE State0
PutCtx(c, id, S) == [x \in (DOMAIN c) \cup {id} |-> IF x = id THEN S ELSE c[x]]
Settle(S) == [S EXCEPT !.sig = "", !.err = NoErr, !.out = "", !.rv = VNil, !.hasrv = FALSE, !.cerr = NoErr, !.depth = 0, !.inloop = 0, !.locked = {}, !.itype = NoFrame]

NoResidue(o) == /\ Fld(o, "ctrl", 0) = 0 /\ Fld(o, "lvl", 0) = 0
                /\ ~Fld(o, "brk", FALSE) /\ ~Fld(o, "cont", FALSE) /\ ~Fld(o, "ret", FALSE)
                /\ Fld(o, "undo", 0) = 0 /\ ~Fld(o, "parsing", FALSE)

\* observed value o against ideal value v (a wildcard null matches any null)
\* (TLC cannot compare records whose fields hold values of different kinds, so tags are compared first)
RECURSIVE VSame(_, _)
VSame(a, b) ==
  /\ a.t = b.t
  /\ CASE a.t = "int" -> a.v = b.v
        [] a.t = "bool" -> a.v = b.v
        [] a.t = "dec" -> a.h = b.h
        [] a.t = "str" -> IF "v" \in DOMAIN a THEN "v" \in DOMAIN b /\ a.v = b.v ELSE "b" \in DOMAIN b /\ a.b = b.b
        [] a.t \in {"bigint", "bigdec"} -> a.w = b.w
        [] a.t = "obj" -> IF "id" \in DOMAIN a THEN "id" \in DOMAIN b /\ a.id = b.id ELSE "h" \in DOMAIN b /\ a.h = b.h
        [] a.t = "raw" -> a.b = b.b
        [] a.t = "null" -> a.ty = b.ty
        [] a.t \in {"tup", "tab"} -> a.ty = b.ty /\ Len(a.v) = Len(b.v) /\ \A j \in DOMAIN a.v : VSame(a.v[j], b.v[j])
        [] a.t = "cpx" -> a.a.t = b.a.t /\ a.b.t = b.b.t /\ a.a = b.a /\ a.b = b.b
        [] a.t = "none" -> TRUE
        [] OTHER -> FALSE
VEq(o, v) == IF v.t = "null" /\ v.ty.m = "any" THEN o.t = "null" ELSE VSame(o, v)

(* -------------- invariants of every observed value (C09) -------------- *)
\* every element of a table has exactly the table's element type, every tuple item the declared type
RECURSIVE Uniform(_)
ObsType(v) == IF IsNull(v) THEN [v.ty EXCEPT !.d = <<>>] ELSE TypeOf(v)
Uniform(v) ==
  CASE v.t = "tab" -> \A j \in DOMAIN v.v :
                         /\ (IF IsNull(v.v[j]) THEN ObsType(v.v[j]) = [ElemType(v.ty) EXCEPT !.d = <<>>]
                             ELSE TypeOf(v.v[j]) = ElemType(v.ty))
                         /\ Uniform(v.v[j])
    [] v.t = "tup" -> /\ Len(v.v) = Len(v.ty.d) /\ Len(v.v) >= 1
                      /\ \A j \in DOMAIN v.v : TypeOf(v.v[j]).m = v.ty.d[j] /\ TypeOf(v.v[j]).l = 0
                                                /\ v.ty.d[j] \notin {"undef", "row"}
    [] OTHER -> TRUE
AllUniform(o) == \A j \in DOMAIN o.vars : Uniform(o.vars[j].val)

(* ------------------------- comparing a dump --------------------------- *)
ObsVar(o, n) == LET idx == {j \in DOMAIN o.vars : o.vars[j].n = n} IN
                IF idx = {} THEN [n |-> "", val |-> [t |-> "absent"], safe |-> FALSE, lock |-> FALSE]
                ELSE o.vars[CHOOSE j \in idx : TRUE]
IsSafeName(n) == n \in {"$S", "$T", "$U", "$ARG"}
DumpWhy(o, S) ==
  IF ~AllUniform(o) THEN "a table is not uniform or a tuple does not match its structure"
  ELSE IF \E j \in DOMAIN o.vars : o.vars[j].n = "$S" /\ ObsType(o.vars[j].val).m # "int"
    THEN "the $-variable changed its major type"
  ELSE IF S.unk THEN (IF ~NoResidue(o) THEN "control state left behind" ELSE "")
  ELSE IF \E n \in DOMAIN S.vars : ~VEq(ObsVar(o, n).val, S.vars[n])
    THEN LET n == CHOOSE n \in DOMAIN S.vars : ~VEq(ObsVar(o, n).val, S.vars[n]) IN
         "variable " \o n \o " differs from the specification; expected: " \o ToJson(S.vars[n])
  ELSE IF \E j \in DOMAIN o.vars : o.vars[j].n \notin DOMAIN S.vars /\ o.vars[j].val.t # "null"
    THEN "a variable the program never assigned holds a value"
  ELSE IF \E j \in DOMAIN o.vars : o.vars[j].lock
    THEN "a variable is left read-only"
  \* the value of a variable belongs to the variable (owner flag): without it an operator writes its result into the variable
  ELSE IF \E j \in DOMAIN o.vars : "own" \in DOMAIN o.vars[j] /\ ~o.vars[j].own
    THEN "the value of variable " \o o.vars[CHOOSE j \in DOMAIN o.vars : "own" \in DOMAIN o.vars[j] /\ ~o.vars[j].own].n \o " is not owned by it any more (an operator may overwrite it in place)"
  ELSE IF \E j \in DOMAIN o.vars : o.vars[j].safe # IsSafeName(o.vars[j].n)
    THEN "a type constraint is left on (or missing from) a variable"
  ELSE IF \E j \in DOMAIN o.vars : o.vars[j].n \in DOMAIN S.vars /\ TypeOf(S.vars[o.vars[j].n]).m # "any"
                                   /\ (IF IsNull(S.vars[o.vars[j].n]) THEN [o.vars[j].sty EXCEPT !.d = <<>>] ELSE o.vars[j].sty) # TypeOf(S.vars[o.vars[j].n])
    THEN "symbol type differs from the type of the stored value"
  ELSE IF \E f \in DOMAIN S.funcs : ~\E j \in DOMAIN o.funcs :
             o.funcs[j].n = S.funcs[f].n /\ o.funcs[j].ar = Len(S.funcs[f].ps) /\ o.funcs[j].body
    THEN "a declared function is missing or has no body"
  ELSE IF ~NoResidue(o) THEN "control state left behind"
  ELSE ""

(* ------------------------ comparing a program run --------------------- *)
ExpectRv(S) == IF S.sig = "ret" /\ S.hasrv THEN S.rv ELSE [t |-> "none"]
RunWhy(o, S) ==      \* S = ideal state after the run
  IF S.sig = "err" /\ S.err.kind = "OTHER" /\ S.err.name \in {"wide", "FUEL"}
    THEN "UNDECIDED"                               \* outside the modelled subset: generator bug, reported as machinery failure
  ELSE IF S.sig = "err" THEN
       IF o.oc # "runtime_error" THEN "the specification raises an error, the run reported " \o o.oc
       ELSE IF Catchable(S.err) /\ o.name # S.err.name THEN "wrong error: expected " \o S.err.name \o " got " \o o.name
       ELSE IF ~Catchable(S.err) /\ o.name # "" THEN "a non-catchable error was expected, got " \o o.name
       ELSE IF o.out # S.out THEN "output before the error differs; expected: " \o S.out
       ELSE IF ~NoResidue(o) THEN "control state left behind after a reported error"
       ELSE ""
  ELSE IF o.oc # "ok" THEN "the specification completes, the run reported " \o o.oc \o " " \o Fld(o, "name", "")
  ELSE IF o.out # S.out THEN "output differs; expected: " \o S.out
  ELSE IF Has(o, "rv") /\ ~VEq(o.rv, ExpectRv(S)) THEN "returned value differs"
  ELSE IF ~NoResidue(o) THEN "control state left behind"
  ELSE ""

\* observed value against an expected one computed by the generator from StrBuiltins
WantOk(v, w) ==
  CASE w.t = "strb" -> v.t = "str" /\ (IF "b" \in DOMAIN v THEN v.b = w.b ELSE Bytes(v.v) = w.b)
    [] w.t = "u32" -> (v.t = "int" /\ w.hi < 16384 /\ v.v = w.hi * 65536 + w.lo) \/ (v.t = "bigint" /\ v.w = <<w.lo, w.hi, 0, 0>>)
    [] w.t = "nullany" -> v.t = "null"
    [] w.t = "rawornull" -> v.t = "null" \/ (v.t = "raw" /\ v.b = w.b)
    [] w.t = "packed" -> \* the bytes of one UTF-8 character packed big-endian into an integer
         LET b == w.b  n == Len(b) IN
         IF n = 1 THEN v.t = "int" /\ v.v = b[1]
         ELSE IF n = 2 THEN v.t = "int" /\ v.v = b[1] * 256 + b[2]
         ELSE IF n = 3 THEN v.t = "int" /\ v.v = (b[1] * 256 + b[2]) * 256 + b[3]
         ELSE v.t = "bigint" /\ v.w = <<b[3] * 256 + b[4], b[1] * 256 + b[2], 0, 0>>
    [] OTHER -> VSame(v, w)

\* static type sty (as the parser reported it) against an observed value
StaticMatches(sty, v) ==
  \/ sty.m = "undef"                                         \* opaque: nothing promised
  \/ LET tv == ObsType(v) IN
     /\ sty.m = tv.m /\ sty.l = tv.l
     /\ (IsNull(v) \/ tv.m # "row" \/ sty.d = <<>>
         \/ (Len(sty.d) = Len(TypeOf(v).d) /\ \A j \in DOMAIN sty.d : sty.d[j] = "undef" \/ sty.d[j] = TypeOf(v).d[j]))
SameVars(o1, o2) ==
  /\ \A j \in DOMAIN o1.vars : \E q \in DOMAIN o2.vars : o2.vars[q].n = o1.vars[j].n /\ VSame(o1.vars[j].val, o2.vars[q].val)
                                                      /\ o1.vars[j].sty = o2.vars[q].sty /\ o1.vars[j].safe = o2.vars[q].safe
  /\ \A q \in DOMAIN o2.vars : \E j \in DOMAIN o1.vars : o2.vars[q].n = o1.vars[j].n

StaticRejectable(S) == S.sig = "err" /\ S.err.kind = "OTHER" /\ S.err.name \in {"type", "rank", "tuple item", "table elem", "const"}

(* ---------------- module objects: lifetime monitor (C17) --------------- *)
\* script-visible holders of object id over all contexts
Holders(c, id) == LET ids == DOMAIN c IN
  LET Sum[S \in SUBSET ids] == IF S = {} THEN 0 ELSE LET x == CHOOSE x \in S : TRUE IN
        Sum[S \ {x}] + (LET vs == c[x].vars IN
                         LET Tot[W \in SUBSET (DOMAIN vs)] == IF W = {} THEN 0 ELSE LET n == CHOOSE n \in W : TRUE IN Tot[W \ {n}] + RefsIn(vs[n], id)
                         IN Tot[DOMAIN vs])
  IN Sum[ids]
EvArgSame(a, b) ==     \* event argument a (observed) against specification value b
  IF IsNull(b) THEN a.t = "null"
  ELSE a.t = b.t /\ (CASE b.t = "int" -> a.v = b.v [] b.t = "str" -> a.v = b.v [] b.t = "dec" -> a.h = b.h
                        [] b.t = "bool" -> a.v = b.v [] b.t = "obj" -> a.id = b.id [] OTHER -> TRUE)
EvSame(a, b) ==        \* observed create/method event a against expected event b
  /\ a.e = b.e /\ a.id = b.id
  /\ (b.e = "create" => a.tag = b.tag)
  /\ (b.e = "method" => a.name = b.name /\ Len(a.args) = Len(b.args) /\ \A j \in DOMAIN b.args : EvArgSame(a.args[j], b.args[j]))
Calls(ev) == SelectSeq(ev, LAMBDA x : x.e \in {"create", "method"})
Destroyed(ev) == {ev[j].id : j \in {j \in DOMAIN ev : ev[j].e = "destroy"}}
\* verdict on the module events of one step: expected calls `want`, contexts after the step c2, registry g2 (n updated)
ObjWhy(ev, want, c2, g) ==
  IF \E j \in DOMAIN ev : ev[j].e = "use_after_destroy" \/ (ev[j].e = "method" /\ ~ev[j].live)
    THEN "a method ran on (or received) a destroyed object"
  ELSE IF Len(Calls(ev)) # Len(want) \/ \E j \in DOMAIN want : ~EvSame(Calls(ev)[j], want[j])
    THEN "constructor/method calls seen by the module differ from the program; expected " \o ToJson(want)
  ELSE IF \E j \in DOMAIN ev : ev[j].e = "destroy" /\ (ev[j].id \in g.dead \/ ~ev[j].was_live \/ \E q \in 1..(j - 1) : ev[q].e = "destroy" /\ ev[q].id = ev[j].id)
    THEN "an object was destroyed twice"
  ELSE IF \E id \in Destroyed(ev) : id > g.n THEN "an unknown object was destroyed"
  ELSE IF \E id \in Destroyed(ev) : Holders(c2, id) > 0
    THEN "an object was destroyed while a variable, table element or tuple item still refers to it"
  ELSE ""

(* ------------------------------ one step ------------------------------ *)
\* returns [C |-> new contexts, why |-> "" or reason]
StepResult(st, o, c, sc) ==
  CASE st.op = "expr" ->
         \* C02 relation: whenever the parser gives the expression a defined type, the evaluation yields exactly
         \* that type; C05: evaluating a side-effect-free expression twice gives equal results
         [C |-> c, why |->
            IF o.oc \notin {"ok", "parse_error", "runtime_error"} THEN "outcome outside the alphabet: " \o o.oc
            ELSE IF ~NoResidue(o) THEN "control/parse state left behind by an expression"
            ELSE IF o.oc = "ok" /\ ~StaticMatches(o.sty, o.val)
                 THEN "static type " \o ToJson(o.sty) \o " but the value is " \o ToJson(ObsType(o.val))
            ELSE IF o.oc = "ok" /\ ~Uniform(o.val) THEN "the value is not uniform / well formed"
            ELSE IF Has(o, "second_failed") THEN "two evaluations in the same state differ: the first one gave a value, the second one failed (" \o o.name \o ")"
            ELSE IF o.oc = "ok" /\ Has(o, "val2") /\ ~VSame(o.val, o.val2) THEN "two evaluations in the same state differ"
            ELSE IF Has(st, "must_err") THEN (IF o.oc = "runtime_error" THEN "" ELSE "an out-of-range argument did not raise an error: " \o o.oc)
            ELSE IF Has(st, "wanterr") THEN
                 (IF o.oc = "runtime_error" /\ o.name = st.wanterr THEN "" ELSE "expected the error " \o st.wanterr \o ", got " \o o.oc \o " " \o Fld(o, "name", ""))
            ELSE IF Has(st, "want") THEN
                 (IF o.oc # "ok" THEN "the built-in failed (" \o o.oc \o " " \o Fld(o, "name", "") \o "); expected " \o ToJson(st.want)
                  ELSE IF ~WantOk(o.val, st.want) THEN "wrong result " \o ToJson(o.val) \o "; expected " \o ToJson(st.want) ELSE "")
            ELSE IF Has(st, "wantpart") THEN    \* not pinned: any BLOC outcome, but a returned string is a contiguous part of the argument
                 (IF o.oc = "ok" /\ o.val.t = "str" /\ ~("v" \in DOMAIN o.val /\ IsPartOf(o.val.v, st.wantpart)) THEN "the result is not a part of the argument" ELSE "")
            ELSE IF Has(st, "ok_iff_true") THEN  \* isnum(s) is true exactly when num(s) succeeds
                 LET b == sc.obs[st.ok_iff_true] IN
                 (IF b.oc # "ok" \/ b.val.t # "bool" THEN "isnum did not return a boolean"
                  ELSE IF b.val.v # (o.oc = "ok") THEN "isnum says " \o ToString(b.val.v) \o " but the conversion " \o (IF o.oc = "ok" THEN "succeeds" ELSE "fails") ELSE "")
            ELSE IF o.oc = "ok" /\ Has(st, "ast") /\ ~CtxOf(c, st.ctx).unk
                 THEN LET r == Eval(st.ast, CtxOf(c, st.ctx)) IN
                      IF Failed(r.S) THEN (IF r.S.err.name = "wide" THEN "" ELSE "the specification raises an error, the evaluation succeeded")
                      ELSE IF ~VEq(o.val, r.v) THEN "value differs; expected " \o ToJson(r.v) ELSE ""
            ELSE ""]
    [] st.op = "cli" ->
         \* C19: the bloc command. mode in file | stdin | out | expr | inter ; judged against the ideal layer when an
         \* AST is given, else against the in-process run of the same text (same_out_as)
         LET args == Fld(st, "args", <<>>)
             S0 == SetVar(State0, "$ARG", VTab(TStr, [j \in DOMAIN args |-> VStr(args[j])]))
             primary == IF st.mode = "out" THEN o.file ELSE o.out
             crash == o.sig # 0 \/ o.san \/ o.status \notin {0, 1} IN
         [C |-> c, why |->
            IF crash THEN "the bloc process crashed or reported a sanitizer error (status " \o ToString(o.status) \o ", signal " \o ToString(o.sig) \o ")"
            ELSE IF Has(st, "free") THEN ""          \* only the outcome alphabet (no crash, status 0 or 1)
            ELSE IF Has(st, "reject") THEN
                 (IF o.status = 0 THEN "a text with a compile error gave exit status 0"
                  ELSE IF o.err_empty THEN "no message on standard error for a compile error"
                  ELSE IF st.mode # "expr" /\ ~o.err_pos THEN "the compile error message has no line:column"
                  ELSE IF primary # "" THEN "a rejected program produced output" ELSE "")
            ELSE IF st.mode = "expr" /\ Has(st, "ast") THEN
                 LET r == Eval(st.ast, State0) IN
                 IF Failed(r.S) THEN (IF r.S.err.name = "wide" THEN "" ELSE IF o.status = 0 \/ o.err_empty THEN "a failing expression gave exit status 0 or no message" ELSE "")
                 ELSE IF o.status # 0 THEN "exit status " \o ToString(o.status) \o " for a valid expression"
                 ELSE IF o.out # (IF IsNull(r.v) THEN "null" ELSE PrintText(r.v)) THEN "bloc -e printed " \o o.out \o ", the value is " \o PrintText(r.v) ELSE ""
            ELSE IF st.mode = "save" /\ Has(st, "ast") THEN
                 \* the program is entered statement by statement, saved with the `save` command, and the saved file is run as a script
                 LET r == RunCliInteractive(st.ast, S0)
                     S == RunProgram(st.ast, S0) IN
                 IF o.status # 0 THEN "interactive mode ended with status " \o ToString(o.status)
                 ELSE IF o.out # r.S.out THEN "interactive mode printed something else; expected: " \o r.S.out
                 ELSE IF o.saved_text = "" THEN "the save command wrote nothing"
                 ELSE IF Failed(S) THEN "UNDECIDED"
                 ELSE IF o.saved_status # 0 THEN "the saved program is rejected or fails (exit status " \o ToString(o.saved_status) \o ")"
                 ELSE IF o.saved_out # S.out \o RvText(S) THEN "the saved program prints something else; expected: " \o S.out \o RvText(S)
                 ELSE ""
            ELSE IF st.mode = "save" /\ Has(st, "relsave") THEN
                 IF o.status # 0 THEN "interactive mode ended with status " \o ToString(o.status)
                 ELSE IF o.nerr # 0 \/ o.nperr # 0 THEN ""   \* the session rejected (part of) the text: nothing is claimed about what was saved
                 ELSE IF o.saved_text = "" THEN "the save command wrote nothing"
                 ELSE IF o.saved_status # 0 THEN "the saved program is rejected or fails (exit status " \o ToString(o.saved_status) \o ")"
                 ELSE IF o.saved_out # o.out THEN "the saved program prints something else than the session it was saved from"
                 ELSE ""
            ELSE IF st.mode = "inter" /\ Has(st, "ast") THEN
                 LET r == RunCliInteractive(st.ast, S0) IN
                 IF o.status # 0 THEN "interactive mode ended with status " \o ToString(o.status)
                 ELSE IF o.out # r.S.out THEN "interactive mode printed something else; expected: " \o r.S.out
                 ELSE IF o.nerr # r.nerr THEN "interactive mode reported " \o ToString(o.nerr) \o " errors, the program has " \o ToString(r.nerr) ELSE ""
            ELSE IF Has(st, "ast") THEN
                 LET S == RunProgram(st.ast, S0) IN
                 IF Failed(S) THEN
                      (IF S.err.name \in {"wide", "FUEL"} THEN "UNDECIDED"
                       ELSE IF o.status = 0 THEN "a program that fails gave exit status 0"
                       ELSE IF o.err_empty THEN "no error message on standard error"
                       ELSE IF primary # S.out THEN "output before the error differs; expected: " \o S.out ELSE "")
                 ELSE IF o.status # 0 THEN "exit status " \o ToString(o.status) \o " for a program that succeeds: " \o o.err
                 ELSE IF primary # S.out \o RvText(S) THEN "the program output differs; expected: " \o S.out \o RvText(S)
                 ELSE IF st.mode = "out" /\ o.out # "" THEN "with --out the program wrote to standard output"
                 ELSE IF ~o.err_empty THEN "a successful run wrote to standard error" ELSE ""
            ELSE IF Has(st, "want_pos") THEN
                 \* a text whose only error sits at a place the generator knows: the message names that line and column
                 IF o.status = 0 THEN "a text with a compile error ended with status 0"
                 ELSE IF ~o.err_pos THEN "no line:column in the error message: " \o o.err
                 ELSE IF o.err_line # st.want_pos.l \/ o.err_col # st.want_pos.c
                      THEN "the error is reported at " \o ToString(o.err_line) \o ":" \o ToString(o.err_col) \o ", it is at " \o ToString(st.want_pos.l) \o ":" \o ToString(st.want_pos.c)
                 ELSE ""
            ELSE IF Has(st, "same_out_as") THEN
                 LET b == sc.obs[st.same_out_as] IN
                 IF (o.status = 0) # (b.oc = "ok") THEN "exit status " \o ToString(o.status) \o " but the library run reported " \o b.oc
                 ELSE IF b.oc = "ok" /\ (Len(primary) < Len(b.out) \/ SubSeq(primary, 1, Len(b.out)) # b.out) THEN "the command prints something else than the library run"
                 ELSE IF b.oc = "runtime_error" /\ primary # b.out THEN "output before the error differs from the library run"
                 ELSE IF b.oc # "ok" /\ o.err_empty THEN "no error message on standard error" ELSE ""
            ELSE ""]
    [] st.op = "threads" ->
         \* C14: n clones of the context run the same compiled program at the same time, `reps` times each; every thread
         \* must observe exactly what a sequential run gives, and the library must not race
         LET RECURSIVE Reps(_, _, _)
             Reps(S, outacc, r) == IF r = 0 THEN [S |-> S, out |-> outacc]
                                   ELSE LET S1 == RunProgram(st.ast, Settle(S)) IN
                                        IF Failed(S1) THEN [S |-> S1, out |-> outacc \o S1.out] ELSE Reps(S1, outacc \o S1.out, r - 1)
             ideal == Reps(CtxOf(c, st.ctx), "", st.reps)
             want == ideal.S
             bad == {j \in DOMAIN o.per :
                       \/ (o.per[j].oc = "ok") # ~Failed(want)
                       \/ o.per[j].out # ideal.out
                       \/ DumpWhy(o.per[j] @@ [ctrl |-> 0, lvl |-> 0, brk |-> FALSE, cont |-> FALSE, ret |-> FALSE, undo |-> 0, parsing |-> FALSE], Settle(want)) # ""}
         IN [C |-> c, why |->
               IF o.oc # "ok" THEN "the program was not compiled: " \o o.oc
               ELSE IF Len(o.per) # st.n THEN "missing thread results"
               ELSE IF o.races # <<>> THEN "data race inside the library: " \o ToJson(o.races)
               ELSE IF bad # {} THEN "thread " \o ToString(CHOOSE j \in bad : TRUE) \o " did not observe the sequential result; expected output: " \o ideal.out
               ELSE ""]
    [] st.op = "capithreads" ->
         \* C14 through the C API: every thread runs its own failing executable in its own clone and must read ITS error
         [C |-> c, why |->
            IF o.oc # "ok" THEN "the executables were not compiled: " \o o.oc
            ELSE IF Len(o.per) # st.n THEN "missing thread results"
            ELSE IF o.races # <<>> THEN "data race inside the library: " \o ToJson(o.races)
            ELSE IF \E j \in DOMAIN o.per : o.per[j].okruns # 0 THEN "a failing program was reported as successful"
            ELSE IF \E j \in DOMAIN o.per : o.per[j].bad_no # 0 THEN "a thread read an error code that is not the one of its own error"
            ELSE IF \E j \in DOMAIN o.per : o.per[j].bad_msg # 0
              THEN "a thread read an error message that is not its own: " \o o.per[CHOOSE j \in DOMAIN o.per : o.per[j].bad_msg # 0].first
            ELSE ""]
    [] st.op = "readfile" ->
         \* an independent reader of the file the script wrote: the stored bytes are those the specification says
         [C |-> c, why |-> IF ~o.exists THEN "the file does not exist" ELSE IF o.bytes # st.want THEN "the file holds " \o ToJson(o.bytes) \o ", the specification says " \o ToJson(st.want) ELSE ""]
    [] st.op = "sqlitedump" ->
         \* an independent reader of the database: the rows it sees are the values the script bound, with their types
         [C |-> c, why |->
            IF o.oc # "ok" THEN "the independent reader could not read the database: " \o o.oc
            ELSE IF Len(o.rows) # Len(st.want) THEN "the database holds " \o ToString(Len(o.rows)) \o " rows"
            ELSE IF \E ri \in DOMAIN st.want : Len(o.rows[ri]) # Len(st.want[ri]) \/ \E j \in DOMAIN st.want[ri] :
                       ~(IF st.want[ri][j].t = "null" THEN o.rows[ri][j].t = "null" ELSE VSame(o.rows[ri][j], st.want[ri][j]))
                 THEN "the database holds other values than those bound: " \o ToJson(o.rows) ELSE ""]
    [] st.op = "tokens" ->
         \* C13: the token sequence is the same however the text reached the scanner
         [C |-> c, why |-> IF Has(st, "same_toks_as") /\ o.toks # sc.obs[st.same_toks_as].toks
                           THEN "the token sequence differs from the reference delivery of the same text" ELSE ""]
    [] st.op = "execfrag" ->
         [C |-> PutCtx(c, st.ctx, [State0 EXCEPT !.unk = TRUE]),
          why |-> IF o.oc \notin {"ok", "parse_error", "runtime_error"} THEN "outcome outside the alphabet: " \o o.oc
                  ELSE IF ~Has(st, "same_run_as") THEN ""
                  ELSE LET b == sc.obs[st.same_run_as] IN
                       IF o.oc # b.oc \/ o.no # b.no THEN "the same text compiles/runs differently when delivered differently: " \o o.oc \o " vs " \o b.oc
                       ELSE IF o.out # b.out THEN "the same text prints something else when delivered differently"
                       ELSE IF ~Has(st, "nounp") /\ o.unp # b.unp THEN "the compiled program differs when the text is delivered differently" ELSE ""]
    [] st.op = "unparse" ->
         \* text produced from a compiled program; with same_text_as: producing text from the reloaded program gives the same text
         [C |-> c, why |-> IF Has(st, "same_text_as") /\ o.text # sc.obs[st.same_text_as].text
                           THEN "the text produced from the reloaded program differs from the text it was loaded from" ELSE ""]
    [] st.op = "execsaved" /\ Has(st, "same_as") ->
         \* the saved text must be accepted and behave like the program it was produced from (relation between two runs)
         LET b == sc.obs[st.same_as] IN
         [C |-> PutCtx(c, st.ctx, [State0 EXCEPT !.unk = TRUE]),
          why |-> IF b.oc = "parse_error" THEN ""
                  ELSE IF o.oc = "parse_error" THEN "the saved text is rejected by the parser"
                  ELSE IF o.oc # b.oc \/ Fld(o, "name", "") # Fld(b, "name", "") THEN "the reloaded program ends differently: " \o o.oc \o " " \o Fld(o, "name", "")
                  ELSE IF o.out # b.out THEN "the reloaded program prints something else"
                  ELSE IF ~VSame(o.rv, b.rv) THEN "the reloaded program returns something else"
                  ELSE IF ~NoResidue(o) THEN "control state left behind" ELSE ""]
    [] Has(st, "same_as") ->
         \* C02 consequence: what ran without error as one unit (step same_as) behaves the same statement by statement
         LET b == sc.obs[st.same_as] IN
         [C |-> c, why |->
            IF st.op = "dump" THEN
                 \* the invariants of every dump hold whatever the two runs did
                 (IF ~AllUniform(o) THEN "a table is not uniform or a tuple does not match its structure"
                  ELSE IF \E j \in DOMAIN o.vars : o.vars[j].n = "$S" /\ ObsType(o.vars[j].val).m # "int" THEN "the $-variable changed its major type"
                  ELSE IF sc.obs[st.after].oc # "ok" \/ (Has(st, "stepat") /\ sc.obs[st.stepat].oc # "ok") THEN ""     \* (already reported at that step)
                  ELSE IF ~SameVars(o, b) THEN "final variables differ between batch and statement-at-a-time execution" ELSE "")
            ELSE IF b.oc # "ok" THEN ""              \* the unit did not compile and run without error: nothing is promised
            ELSE IF o.oc # "ok" THEN "ran as one unit, but statement-at-a-time reported " \o o.oc \o " " \o Fld(o, "name", "")
            ELSE IF o.out # b.out THEN "output differs between batch and statement-at-a-time execution"
            ELSE ""]
    [] Has(st, "free") ->
         \* not judged against the ideal layer (only the outcome alphabet and invariants); the monitor loses track
         [C |-> PutCtx(c, st.ctx, [State0 EXCEPT !.unk = TRUE]),
          why |-> IF o.oc \notin {"ok", "parse_error", "runtime_error"} THEN "outcome outside the alphabet: " \o o.oc
                  \* a text that can only go on by running a method on an object of another module (C17)
                  \* a prelude the generator relies on: when it does not run the scenario means nothing (generator bug, machinery failure)
                  ELSE IF Has(st, "prelude") /\ o.oc # "ok" THEN "UNDECIDED: the prelude did not run: " \o o.oc
                  ELSE IF Has(st, "must_fail") /\ o.oc = "ok" THEN "the program completed although it calls a method on an object of another module"
                  \* the module's own log of the step: which events (create / method / destroy), in order; no method on a destroyed object
                  ELSE IF Has(st, "expect_ev") /\ [j \in DOMAIN o.ev |-> o.ev[j].e] # st.expect_ev
                    THEN "the module saw other events than the program implies: " \o ToJson([j \in DOMAIN o.ev |-> o.ev[j].e])
                  ELSE IF Has(st, "expect_ev") /\ \E j \in DOMAIN o.ev : o.ev[j].e = "method" /\ ~o.ev[j].live THEN "a method ran on a destroyed object"
                  ELSE IF ~NoResidue(o) THEN "control state left behind" ELSE ""]
    [] st.op \in {"exec", "step"} /\ Has(st, "maybe_reject") ->
         \* a text derived by cutting/corrupting a valid program: if it is rejected nothing may have changed;
         \* if the parser accepts it the monitor does not know its meaning and loses track of the context
         IF o.oc = "parse_error"
         THEN [C |-> c, why |-> IF ~NoResidue(o) THEN "parse state left behind by a rejected text"
                                ELSE IF o.out # "" THEN "a rejected text produced output" ELSE ""]
         ELSE [C |-> PutCtx(c, st.ctx, [State0 EXCEPT !.unk = TRUE]),
               why |-> IF o.oc \in {"ok", "runtime_error"} THEN "" ELSE "outcome outside the alphabet: " \o o.oc]
    [] st.op = "step" /\ ~Has(st, "reject") ->
         LET r == RunStepwise(st.ast, CtxOf(c, st.ctx))
             S == IF r.first.kind = "" THEN [r.S EXCEPT !.sig = ""] ELSE [r.S EXCEPT !.sig = "err", !.err = r.first]
         IN  [C |-> PutCtx(c, st.ctx, Settle(r.S)),
              why |-> LET w == RunWhy([o EXCEPT !.rv = [t |-> "none"]], [S EXCEPT !.hasrv = FALSE]) IN
                      IF w # "" THEN "stepwise: " \o w ELSE ""]
    [] st.op = "exec" /\ Has(st, "runin") ->
         \* compiled in one context, run in a clone of it (Executable::run with another context, bloc_execute2): the run
         \* happens in the clone; the compiling context only sees the function declarations of the text
         LET S == RunProgram(st.ast, CtxOf(c, st.runin))
             c1 == PutCtx(c, st.runin, Settle(S))
         IN  [C |-> PutCtx(c1, st.ctx, DeclFuncs(st.ast, CtxOf(c1, st.ctx))), why |-> RunWhy(o, S)]
    [] st.op \in {"exec", "step", "execsaved"} ->
         IF Has(st, "reject") THEN \* a text the generator made invalid: must be rejected, context untouched
              [C |-> c, why |-> IF o.oc # "parse_error" THEN "an invalid text was not rejected: " \o o.oc
                                ELSE IF ~NoResidue(o) THEN "parse state left behind" ELSE ""]
         ELSE IF CtxOf(c, st.ctx).unk THEN \* after an unpinned step only the outcome alphabet is checked
              [C |-> c, why |-> IF o.oc \in {"ok", "parse_error", "runtime_error"} THEN "" ELSE "outcome outside the alphabet: " \o o.oc]
         ELSE LET S == RunProgram(st.ast, CtxOf(c, st.ctx))
                  w == RunWhy(o, S) IN
              IF o.oc = "parse_error" /\ (StaticRejectable(S) \/ (Has(st, "static_ok") /\ Failed(S)))
              THEN \* a type/rank error may be found at compile time: the whole text is rejected, nothing ran
                   [C |-> c, why |-> IF ~NoResidue(o) THEN "parse state left behind" ELSE IF o.out # "" THEN "a rejected text produced output" ELSE ""]
              ELSE IF w = "UNDECIDED" /\ Has(st, "unpinned")
              THEN \* the manual does not pin this operation: any BLOC outcome is allowed, the ideal context is lost
                   [C |-> PutCtx(c, st.ctx, [State0 EXCEPT !.unk = TRUE]),
                    why |-> IF o.oc \in {"ok", "parse_error", "runtime_error"} THEN "" ELSE "outcome outside the alphabet: " \o o.oc]
              ELSE [C |-> PutCtx(c, st.ctx, Settle(S)), why |-> w]
    [] st.op = "dump" /\ Has(st, "unchanged_since") ->
         \* C05 relation: evaluating an expression changes no variable (compared with the dump taken before), and every
         \* variable still owns its value
         LET b == sc.obs[st.unchanged_since]
             diff == {j \in DOMAIN b.vars : ~\E q \in DOMAIN o.vars : o.vars[q].n = b.vars[j].n /\ VSame(o.vars[q].val, b.vars[j].val) /\ o.vars[q].sty = b.vars[j].sty} IN
         [C |-> c, why |->
            IF diff # {} THEN "evaluating the expression changed variable " \o b.vars[CHOOSE j \in diff : TRUE].n
            ELSE IF \E j \in DOMAIN o.vars : "own" \in DOMAIN o.vars[j] /\ ~o.vars[j].own
              THEN "the value of variable " \o o.vars[CHOOSE j \in DOMAIN o.vars : "own" \in DOMAIN o.vars[j] /\ ~o.vars[j].own].n \o " is not owned by it any more (an operator may overwrite it in place)"
            ELSE IF ~AllUniform(o) THEN "a table is not uniform or a tuple does not match its structure"
            ELSE IF ~NoResidue(o) THEN "control state left behind" ELSE ""]
    [] st.op = "dump" /\ Has(st, "free") -> [C |-> c, why |-> ""]
    [] st.op = "dump" -> [C |-> c, why |-> DumpWhy(o, CtxOf(c, st.ctx))]
    [] st.op = "clone" -> [C |-> PutCtx(c, st.ctx, CtxOf(c, st.from)), why |-> ""]
    [] st.op = "purge" -> [C |-> PutCtx(c, st.ctx, State0), why |-> ""]
    [] st.op = "free" -> [C |-> [x \in (DOMAIN c) \ {st.ctx} |-> c[x]], why |-> ""]
    [] st.op = "new" -> [C |-> PutCtx(c, st.ctx, State0), why |-> ""]
    [] OTHER -> [C |-> c, why |-> "unknown op"]

Report(id, kk, why, st, o) ==
  IF why = "" THEN TRUE
  ELSE PrintT("@@V " \o ToJson([id |-> id, k |-> kk, why |-> why]))

Init == /\ i \in 1..N /\ k = 0 /\ C = <<>> /\ verdict = "" /\ G = G0

Next ==
  /\ k < Len(Scn[i].steps)
  /\ LET sc == Scn[i]
         st == sc.steps[k + 1]
     IN  IF k + 1 > Len(sc.obs)
         THEN \* the process died or hung inside this scenario: no specification step allows that
              /\ verdict' = "no observation: " \o sc.end \o " " \o Fld(sc, "san", "")
              /\ Report(sc.id, k + 1, verdict', st, <<>>)
              /\ k' = Len(sc.steps) /\ C' = C /\ i' = i /\ G' = G
         ELSE LET o == sc.obs[k + 1]
                  objs == Has(sc, "objects")
                  \* the process-wide object registry is threaded through the context the step runs in
                  Cin == IF objs /\ Has(st, "ctx") /\ st.ctx \in DOMAIN C
                         THEN [C EXCEPT ![st.ctx] = [@ EXCEPT !.nobj = G.n, !.otags = G.tags, !.oev = <<>>]]
                         ELSE IF objs /\ Has(st, "ctx") THEN PutCtx(C, st.ctx, [State0 EXCEPT !.nobj = G.n, !.otags = G.tags]) ELSE C
                  r == StepResult(st, o, Cin, sc)
                  Sout == IF objs /\ Has(st, "ctx") /\ st.ctx \in DOMAIN r.C THEN r.C[st.ctx] ELSE State0
                  g1 == IF objs /\ st.op \in {"exec", "step"} /\ ~Has(st, "reject") THEN [G EXCEPT !.n = Sout.nobj, !.tags = Sout.otags] ELSE G
                  ow == IF objs /\ r.why = "" /\ Has(o, "ev")
                        THEN ObjWhy(o.ev, IF st.op \in {"exec", "step"} THEN Sout.oev ELSE <<>>, r.C, g1) ELSE ""
                  last == k + 1 = Len(sc.steps)
                  \* at the end every context and program is released: every object must have been destroyed exactly once
                  endw == IF objs /\ last /\ r.why = "" /\ ow = "" THEN
                             LET d2 == g1.dead \cup Destroyed(o.ev) \cup Destroyed(sc.evend) IN
                             IF d2 # 1..g1.n THEN "after releasing everything some object was never destroyed (or an unknown one was)"
                             ELSE IF \E j \in DOMAIN sc.evend : sc.evend[j].e = "destroy" /\ (sc.evend[j].id \in g1.dead \cup Destroyed(o.ev) \/ ~sc.evend[j].was_live
                                        \/ \E q \in 1..(j - 1) : sc.evend[q].e = "destroy" /\ sc.evend[q].id = sc.evend[j].id)
                                  THEN "an object was destroyed twice" ELSE ""
                          ELSE ""
                  why == IF r.why # "" THEN r.why ELSE IF ow # "" THEN ow ELSE endw
              IN  /\ verdict' = why
                  /\ Report(sc.id, k + 1, why, st, o)
                  /\ G' = [g1 EXCEPT !.dead = @ \cup (IF objs /\ Has(o, "ev") THEN Destroyed(o.ev) ELSE {})]
                  /\ C' = r.C /\ k' = k + 1 /\ i' = i

Spec == Init /\ [][Next]_vars
=============================================================================
