INIT Init
NEXT Next
CONSTANTS Dev = "hashed_identity"
          MaxItems = 4
INVARIANT UniformTables
CHECK_DEADLOCK FALSE
