------------------------------- MODULE ModFile -------------------------------
(***************************************************************************)
(* A file opened for update (mode w+) as the file module exposes it:       *)
(* content (bytes) and position.  write overwrites / extends at the        *)
(* position (a gap left by seeking past the end reads as zero bytes), read *)
(* returns at most n bytes from the position, seeks to a negative offset   *)
(* fail and leave the position where it was.                               *)
(***************************************************************************)
EXTENDS Integers, Sequences, TLC
F0 == [bytes |-> <<>>, pos |-> 0]
Zeros(n) == [i \in 1..n |-> 0]
Write(f, d) ==
  IF d = <<>> THEN f ELSE          \* nothing written: no gap is materialised either
  LET base == IF f.pos > Len(f.bytes) THEN f.bytes \o Zeros(f.pos - Len(f.bytes)) ELSE f.bytes
      tailFrom == f.pos + Len(d) + 1
  IN  [bytes |-> SubSeq(base, 1, f.pos) \o d \o (IF tailFrom <= Len(base) THEN SubSeq(base, tailFrom, Len(base)) ELSE <<>>), pos |-> f.pos + Len(d)]
SeekSet(f, p) == IF p >= 0 THEN [f EXCEPT !.pos = p] ELSE f
SeekCur(f, d) == IF f.pos + d >= 0 THEN [f EXCEPT !.pos = @ + d] ELSE f
SeekEnd(f, d) == IF Len(f.bytes) + d >= 0 THEN [f EXCEPT !.pos = Len(f.bytes) + d] ELSE f
ReadData(f, n) == IF f.pos >= Len(f.bytes) THEN <<>> ELSE SubSeq(f.bytes, f.pos + 1, IF f.pos + n > Len(f.bytes) THEN Len(f.bytes) ELSE f.pos + n)
Read(f, n) == [f EXCEPT !.pos = @ + Len(ReadData(f, n))]
=============================================================================
