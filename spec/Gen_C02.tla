------------------------------ MODULE Gen_C02 ------------------------------
(***************************************************************************)
(* Scenario generator for C02.                                             *)
(*  E: the (construct x operand kind x nullness) matrix: every binary and  *)
(*     unary operator and every built-in of the vocabulary applied to      *)
(*     operands of every kind (literals, typed nulls, untyped null,        *)
(*     variables, opaque function results, tables, tuples, bytes, complex, *)
(*     elements).  For each, the harness records the type the parser gave  *)
(*     the expression and the value of two evaluations; TLC checks         *)
(*     static = dynamic and (where the ideal layer covers it) the value.   *)
(*  B: all sequences of <= L statements from a type-changing pool, run as  *)
(*     one unit and statement by statement: same output and variables.     *)
(***************************************************************************)
EXTENDS Bloc, Json, IOUtils, SequencesExt
Env(n, d) == IF n \in DOMAIN IOEnv THEN IOEnv[n] ELSE d
L == atoi(Env("GEN_DEPTH", "2"))

Prelude == "VI = 1; VD = 2.5; VS = \"s\"; VB = true; VT = tab(2, 1); VU = tup(1, \"a\"); VNI = int(); VN = null; VR = raw(\"ab\"); VTS = tab(2, \"q\"); VTT = tab(1, tab(1, 1)); VTU = tab(1, tup(1, \"a\"));\n"
           \o "function FO(X) return undefined is begin return X; end;\nfunction FI(X) return integer is begin return 1; end;\nfunction FT(X) return table is begin return tab(1, X); end;"

Operands == << "1", "0", "2.5", "\"s\"", "\"12\"", "true", "null", "int()", "num()", "str()", "bool()", "raw()", "tup()", "tab()",
               "VI", "VD", "VS", "VB", "VT", "VU", "VNI", "VN", "VR", "VTS", "VTT", "VTU",
               "FO(1)", "FO(\"s\")", "FO(VT)", "FO(null)", "FI(1)", "FT(1)", "tab(1, 1)", "tup(1, 2.5)", "raw(\"ab\")", "ii",
               "VT.at(0)", "VU@1", "VU@2", "VTT.at(0)", "VTU.at(0)", "VTU.at(0)@2", "(-3)" >>
Huge == "9223372036854775807"
BinOps == << "+", "-", "*", "/", "%", "**", "power", "&", "|", "^", "<<", ">>", "==", "!=", "<", "<=", ">", ">=", "and", "or", "xor", "&&", "||", "matches" >>
UnOps  == << "-", "~", "!", "not ", "+" >>
Fun1 == << "abs", "acos", "asin", "atan", "b64dec", "b64enc", "bool", "ceil", "chr", "cos", "cosh", "exp", "floor", "hash", "hex", "iconj", "imag",
           "int", "iphase", "isnull", "isnum", "log10", "log", "lower", "ltrim", "num", "raw", "round", "rtrim", "sign", "sin", "sinh", "sqrt",
           "strlen", "str", "tan", "tanh", "trim", "typeof", "upper" >>
Fun2 == << "atan2", "hash", "hex", "lsubstr", "max", "min", "mod", "pow", "raw", "round", "rsubstr", "strpos", "subraw", "substr", "tab", "tokenize", "tup" >>
Fun3 == << "clamp", "replace", "strpos", "subraw", "substr", "tokenize" >>
Members0 == << "count" >>
Members1 == << "at", "delete", "concat" >>
Members2 == << "put", "insert" >>
Core == << "1", "2.5", "\"s\"", "true", "null", "int()", "VI", "VT", "VU", "FO(1)", "VN", "VR" >>      \* operands for wider arities

Exprs ==
  {Operands[a] \o " " \o BinOps[o] \o " " \o Operands[b] : a \in DOMAIN Operands, b \in DOMAIN Operands, o \in DOMAIN BinOps}
  \cup {UnOps[o] \o Operands[a] : a \in DOMAIN Operands, o \in DOMAIN UnOps}
  \cup {Huge \o " " \o BinOps[o] \o " " \o Operands[b] : b \in DOMAIN Operands, o \in DOMAIN BinOps}
  \cup {Operands[b] \o " " \o BinOps[o] \o " " \o Huge : b \in DOMAIN Operands, o \in DOMAIN BinOps \ {6, 7}}
  \cup {Operands[a] : a \in DOMAIN Operands}
  \cup {Fun1[f] \o "(" \o Operands[a] \o ")" : f \in DOMAIN Fun1, a \in DOMAIN Operands}
  \cup {Fun2[f] \o "(" \o Operands[a] \o ", " \o Core[b] \o ")" : f \in DOMAIN Fun2, a \in DOMAIN Operands, b \in DOMAIN Core}
  \cup {Fun3[f] \o "(" \o Core[a] \o ", " \o Core[b] \o ", " \o Core[c] \o ")" : f \in DOMAIN Fun3, a \in DOMAIN Core, b \in DOMAIN Core, c \in DOMAIN Core}
  \cup {"(" \o Operands[a] \o ")." \o Members0[m] \o "()" : a \in DOMAIN Operands, m \in DOMAIN Members0}
  \cup {"(" \o Operands[a] \o ")." \o Members1[m] \o "(" \o Core[b] \o ")" : a \in DOMAIN Operands, m \in DOMAIN Members1, b \in DOMAIN Core}
  \cup {"(" \o Operands[a] \o ")." \o Members2[m] \o "(" \o Core[b] \o ", " \o Core[c] \o ")" : a \in DOMAIN Operands, m \in DOMAIN Members2, b \in {2, 7}, c \in DOMAIN Core}
  \cup {"(" \o Operands[a] \o ")@" \o r : a \in DOMAIN Operands, r \in {"1", "2", "3"}}
  \cup {"(" \o Operands[a] \o ").set@" \o r \o "(" \o Core[b] \o ")" : a \in DOMAIN Operands, r \in {"1", "2"}, b \in DOMAIN Core}

\* in-place methods change their receiver: not side-effect free, evaluated once
Mutating == {"(" \o Operands[a] \o ")." \o Members1[m] \o "(" \o Core[b] \o ")" : a \in DOMAIN Operands, m \in {2, 3}, b \in DOMAIN Core}
  \cup {"(" \o Operands[a] \o ")." \o Members2[m] \o "(" \o Core[b] \o ", " \o Core[c] \o ")" : a \in DOMAIN Operands, m \in DOMAIN Members2, b \in {2, 7}, c \in DOMAIN Core}
  \cup {"(" \o Operands[a] \o ").set@" \o r \o "(" \o Core[b] \o ")" : a \in DOMAIN Operands, r \in {"1", "2"}, b \in DOMAIN Core}

\* chunks of expressions sharing one context (the prelude is compiled once per scenario)
ChunkSize == 40
ExprSeq == SetToSeq(Exprs)

(* ---------------- B: type-changing statement sequences --------------- *)
Pool == << "X = 1;", "X = \"s\";", "X = 2.5;", "X = tab(1, 1);", "X = tup(1, \"a\");", "X = null;", "X = X + 1;", "Y = X;", "X = Y;",
           "$S = $S + 1;", "$S = 2.5;", "$S = \"s\";", "$S = X;",
           \* a type-safe variable used as the control variable of a loop is still type-safe afterwards
           "for $S in 1 to 2 loop Y = $S; end loop;", "for $S in 1 to 2 loop for $S in 4 to 5 loop Y = $S; end loop; end loop;",
           "for X in 1 to 2 loop Y = X; end loop;", "for I in 1 to 2 loop I = \"s\"; end loop;", "for I in 1 to 2 loop X = I; X = \"t\"; end loop;",
           "forall X in T loop Y = X; end loop;", "forall E in T loop E = \"s\"; end loop;", "forall E in T loop E = E + 1; X = E; end loop;",
           "X = FO(X);", "X = FO(1);", "print typeof(X) typeof(Y);", "if typeof(X) == \"integer\" then Y = X + 1; else Y = \"n\"; end if;",
           "X:string;", "T = tab(2, \"z\");", "T.put(0, X);", "X = T.at(0);", "X = T;", "Y = X.count();", "print X + 1;", "print X + \"s\";" >>
BPrelude == "$S = 5; X = 0; Y = 0; T = tab(2, 1);\nfunction FO(X) return undefined is begin return X; end;"
RECURSIVE Seqs(_)
Seqs(n) == IF n = 0 THEN {<<>>} ELSE {Append(h, c) : h \in Seqs(n - 1), c \in DOMAIN Pool}
BProgs == UNION {Seqs(n) : n \in 1..L}
BText(h) == LET J[i \in 0..Len(h)] == IF i = 0 THEN "" ELSE J[i - 1] \o "\n" \o Pool[h[i]] IN J[Len(h)]

(* ---------------- U: values of the same major type but another structure --------------- *)
\* whatever the outcome (accepted with conversion, rejected when compiled, error at run time), every table stays uniform and
\* every tuple keeps its structure: judged by the invariants of the dump only
UTexts == {
  "TU = tab(2, tup(1, \"a\")); forall E in TU loop E = tup(\"s\", 1); end loop; print typeof(TU.at(0)@1);",
  "TU = tab(2, tup(1, \"a\")); forall E in TU loop E = tup(1, \"a\", 2); end loop;",
  "TU = tab(2, tup(1, \"a\")); forall E in TU loop E = tup(2.5, \"a\"); end loop;",
  "TU = tab(2, tup(1, \"a\")); W = tup(\"s\", 1); forall E in TU loop E = W; end loop;",
  "TT = tab(2, tab(1, 1)); forall E in TT loop E = tab(1, tab(1, 1)); end loop; print typeof(TT.at(0).at(0));",
  "TT = tab(2, tab(1, 1)); forall E in TT loop E = tab(1, \"s\"); end loop;",
  "TT = tab(2, tab(1, 1)); W = tab(1, 2.5); forall E in TT loop E = W; end loop;",
  "TI = tab(2, 1); forall E in TI loop E = 2.5; end loop;", "TD = tab(2, 1.5); forall E in TD loop E = 2; end loop;",
  "TI = tab(2, 1); forall E in TI loop E = num(); end loop;", "TS = tab(2, \"a\"); forall E in TS loop E = raw(\"b\"); end loop;",
  "TU = tab(2, tup(1, \"a\")); TU.at(0).set@1(\"s\");", "TU = tab(2, tup(1, \"a\")); R = TU.at(0); R.set@2(5); TU.put(1, R);",
  "TT = tab(2, tab(1, 1)); TT.at(0).put(0, \"s\");", "TT = tab(2, tab(1, 1)); TT.at(0).concat(tab(1, 1));", "TT = tab(2, tab(1, 1)); TT.at(1).concat(2.5);" }

(* ---------------- V: a variable whose tuple structure changes (directly, through a typed null, through a table) --------------- *)
\* compiled as one unit and statement at a time: the items are read with the structure the variable has then
VTexts == {
  "X = tup(\"s\", 1);\nX = tab(int(), tup(1.5, true));\nX.concat(tup(2.5, false));\nprint X.at(0)@1 / 2;\nprint not X.at(0)@2;",
  "X = tup(1, \"a\");\nX = tab(0, tup(\"b\", 2.5));\nX.concat(tup(\"c\", 3.5));\nprint X.at(0)@2 + 1;\nprint X.at(0)@1 + \"s\";",
  "X = tup(1, \"a\");\nX = tup(\"b\", 2.5, true);\nprint X@2 + 1;\nprint X@1 + \"s\";\nprint not X@3;",
  "W = tab(2, tup(1, \"a\"));\nW = tab(2, tup(\"b\", 2.5));\nprint W.at(0)@2 + 1;\nprint W.at(1)@1 + \"s\";",
  "X = tup(1, \"a\");\nX = null;\nX = tup(\"b\", 2.5);\nprint X@2 + 1;",
  "X = tup(\"s\", 1);\nX = tup();\nX = tup(2.5, true);\nprint X@1 / 2;\nprint not X@2;",
  "X = tup(\"s\", 1);\nX = 5;\nX = tup(2.5, true);\nprint X@1 / 2;",
  "X = tab(1, tup(\"s\", 1));\nX = tab(int(), tup(1.5, true));\nX.concat(tup(2.5, false));\nprint X.at(0)@1 / 2;" }
VARIABLE p
Init == p \in {[kind |-> "V", t |-> t] : t \in VTexts} \cup {[kind |-> "E", c |-> c] : c \in 0..((Cardinality(Exprs) - 1) \div ChunkSize)} \cup {[kind |-> "B", h |-> h] : h \in BProgs}
              \cup {[kind |-> "U", t |-> t] : t \in UTexts}
Next == UNCHANGED p
Scenario(q) ==
  IF q.kind = "U" THEN
    [prop |-> "C02", key |-> "U",
     steps |-> << [op |-> "exec", ctx |-> 0, free |-> TRUE, text |-> q.t], [op |-> "dump", ctx |-> 0],
                  [op |-> "step", ctx |-> 1, free |-> TRUE, text |-> q.t], [op |-> "dump", ctx |-> 1] >>]
  ELSE IF q.kind = "V" THEN
    [prop |-> "C02", key |-> "V",
     steps |-> << [op |-> "exec", ctx |-> 0, free |-> TRUE, text |-> BPrelude],
                  [op |-> "exec", ctx |-> 0, free |-> TRUE, text |-> q.t],
                  [op |-> "dump", ctx |-> 0],
                  [op |-> "step", ctx |-> 1, free |-> TRUE, text |-> BPrelude],
                  [op |-> "step", ctx |-> 1, same_as |-> 2, text |-> q.t],
                  [op |-> "dump", ctx |-> 1, same_as |-> 3, after |-> 2, stepat |-> 5] >>]
  ELSE IF q.kind = "E" THEN
    LET lo == q.c * ChunkSize + 1   hi == IF lo + ChunkSize - 1 > Len(ExprSeq) THEN Len(ExprSeq) ELSE lo + ChunkSize - 1 IN
    [prop |-> "C02", key |-> "E",
     steps |-> << [op |-> "exec", ctx |-> 0, free |-> TRUE, text |-> Prelude] >> \o
               [j \in 1..(hi - lo + 1) |-> [op |-> "expr", ctx |-> 0, twice |-> ExprSeq[lo + j - 1] \notin Mutating, text |-> ExprSeq[lo + j - 1]]]]
  ELSE
    [prop |-> "C02", key |-> "B",
     steps |-> << [op |-> "exec", ctx |-> 0, free |-> TRUE, text |-> BPrelude],
                  [op |-> "exec", ctx |-> 0, free |-> TRUE, text |-> BText(q.h)],
                  [op |-> "dump", ctx |-> 0],
                  [op |-> "step", ctx |-> 1, free |-> TRUE, text |-> BPrelude],
                  [op |-> "step", ctx |-> 1, same_as |-> 2, text |-> BText(q.h)],
                  [op |-> "dump", ctx |-> 1, same_as |-> 3, after |-> 2, stepat |-> 5] >>]
Emit == PrintT("@@S " \o ToJson(Scenario(p)))
=============================================================================
