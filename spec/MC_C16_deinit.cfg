SPECIFICATION Spec
CONSTANTS Modules = {"csv", "utf8"}
          Alphabet = "deinit"
          MaxLen = 6
INVARIANT NoUngrantedObject
INVARIANT UntrustedNeverLoadsByPath
INVARIANT TrustedUnrestricted
CHECK_DEADLOCK FALSE
