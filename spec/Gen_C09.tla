------------------------------ MODULE Gen_C09 ------------------------------
(***************************************************************************)
(* Scenario generator for C09: containers of every kind x operation x      *)
(* argument kind (matching, mixable int/decimal, mismatching, typed null,   *)
(* untyped null, table of same/other type) x position lattice               *)
(* {-1,0,1,n-1,n,n+1,2^32+1,huge,null}; single operations exhaustively and  *)
(* pairs from a reduced pool; each operation is its own compilation unit    *)
(* followed by a dump.  Where the manual does not pin the result the step   *)
(* is "unpinned": any BLOC outcome is accepted, but every later dump must   *)
(* still show uniform tables and well-formed tuples.                        *)
(***************************************************************************)
EXTENDS Bloc, Json, IOUtils, SequencesExt
Env(n, d) == IF n \in DOMAIN IOEnv THEN IOEnv[n] ELSE d
H == atoi(Env("GEN_DEPTH", "1"))

X == V("X")
Kinds == {"ti", "td", "ts", "tu", "tt", "str", "raw", "tup"}
Init0(k) ==
  CASE k = "ti" -> Call("tab", <<I(3), I(1)>>) [] k = "td" -> Call("tab", <<I(3), D(3)>>)
    [] k = "ts" -> Call("tab", <<I(3), Str("a")>>) [] k = "tu" -> Call("tab", <<I(3), Call("tup", <<I(1), Str("a")>>)>>)
    [] k = "tt" -> Call("tab", <<I(3), Call("tab", <<I(1), I(1)>>)>>)
    [] k = "str" -> Str("abc") [] k = "raw" -> Call("raw", <<I(3), I(65)>>)
    [] k = "tup" -> Call("tup", <<I(1), Str("a"), D(5)>>)

\* element arguments: <<expression, pinned?>>
Args(k) ==
  CASE k = "ti" -> << I(5), D(4), Str("x"), Call("int", <<>>), Call("num", <<>>), NullC, Call("str", <<>>), Mem(Call("tab", <<I(1), I(7)>>), "concat", <<I(8)>>), Call("tab", <<I(1), Str("s")>>), Call("tab", <<>>), B(TRUE) >>
    [] k = "td" -> << D(5), I(4), Str("x"), Call("num", <<>>), Call("int", <<>>), NullC, Call("tab", <<I(2), D(7)>>), Call("tab", <<I(1), I(1)>>) >>
    [] k = "ts" -> << Str("z"), I(5), Call("str", <<>>), NullC, Call("int", <<>>), Mem(Call("tab", <<I(1), Str("q")>>), "concat", <<Str("r")>>), Call("tab", <<I(1), I(1)>>) >>
    [] k = "tu" -> << Call("tup", <<I(2), Str("b")>>), Call("tup", <<Str("b"), I(2)>>), Call("tup", <<I(2)>>), Call("tup", <<I(2), Str("b"), I(3)>>),
                      Call("tup", <<Call("int", <<>>), Call("str", <<>>)>>), Call("tup", <<>>), NullC, I(5),
                      Call("tup", <<D(4), Str("b")>>), Call("tab", <<I(1), Call("tup", <<I(9), Str("n")>>)>>), Call("tab", <<I(1), Call("tup", <<Str("n"), I(9)>>)>>) >>
    [] k = "tt" -> << Call("tab", <<I(2), I(7)>>), Call("tab", <<I(1), Str("s")>>), Call("tab", <<>>), NullC, I(5),
                      Call("tab", <<I(1), Call("tab", <<I(1), I(4)>>)>>), Call("tab", <<I(1), D(3)>>), D(3), D(4), Call("num", <<>>), Call("int", <<>>) >>
    [] k = "str" -> << I(66), Str("xy"), I(300), I(-1), I(256), I(0 + 255), Call("int", <<>>), NullC, D(3), Call("raw", <<I(1), I(66)>>) >>
    [] k = "raw" -> << I(66), Call("raw", <<I(2), I(67)>>), I(300), I(-1), I(256), Call("int", <<>>), NullC, Str("xy"), D(3) >>
    [] k = "tup" -> << I(9), D(4), Str("z"), Call("int", <<>>), Call("num", <<>>), Call("str", <<>>), NullC, B(TRUE), D(5) >>

\* every argument also through an opaque route (a user function returning its parameter): the compile-time checks
\* cannot decide, so the run-time checks are reached
Opaque(e) == UCall("FO", <<e>>)
ArgsX(k) == Args(k) \o [j \in DOMAIN Args(k) |-> Opaque(Args(k)[j])]

Positions == << I(-1), I(0), I(1), I(2), I(3), I(4), RawInt("4294967297", 2000000001), RawInt("4294967296", 2000000000),
                RawInt("99999999999", 2000000002), RawInt("9223372036854775807", 2000000003), Call("int", <<>>), NullC, D(2), Str("1") >>

\* helper: enumerate a finite set of pairs as a sequence of statements (order irrelevant)
SetToSeqP(S) == SetToSeq(S)
UNION2(S) == LET Q == SetToSeqP(S) IN [j \in 1..Len(Q) |-> Do(SetAt(X, Q[j][1], ArgsX("tup")[Q[j][2]]))]
PosArg(k, m) == LET S == {<<j, a>> : j \in DOMAIN Positions, a \in DOMAIN ArgsX(k)}
                    Q == SetToSeqP(S)
                IN  [j \in 1..Len(Q) |-> Do(Mem(X, m, <<Positions[Q[j][1]], ArgsX(k)[Q[j][2]]>>))]

Ops(k) ==
  IF k = "tup" THEN
       << PrintS(<<Mem(X, "count", <<>>)>>) >>
       \o [j \in 1..5 |-> Let("Y", Item(X, j - 1))]
       \o UNION2({<<j, a>> : j \in 0..4, a \in DOMAIN ArgsX(k)})
  ELSE << PrintS(<<Mem(X, "count", <<>>)>>) >>
       \o [j \in DOMAIN Positions |-> Let("Y", Mem(X, "at", <<Positions[j]>>))]
       \o [j \in DOMAIN Positions |-> Do(Mem(X, "delete", <<Positions[j]>>))]
       \o [j \in DOMAIN ArgsX(k) |-> Do(Mem(X, "concat", <<ArgsX(k)[j]>>))]
       \o PosArg(k, "put") \o PosArg(k, "insert")

\* reduced pool for pairs: in-range positions, every argument kind
Reduced(k) ==
  IF k = "tup" THEN [a \in DOMAIN Args(k) |-> Do(SetAt(X, 1, Args(k)[a]))] \o [a \in DOMAIN Args(k) |-> Do(SetAt(X, 3, Args(k)[a]))]
  ELSE [a \in DOMAIN Args(k) |-> Do(Mem(X, "put", <<I(0), Args(k)[a]>>))] \o [a \in DOMAIN Args(k) |-> Do(Mem(X, "insert", <<I(1), Args(k)[a]>>))]
       \o [a \in DOMAIN Args(k) |-> Do(Mem(X, "concat", <<Args(k)[a]>>))] \o <<Do(Mem(X, "delete", <<I(0)>>)), Do(Mem(X, "delete", <<I(5)>>))>>

\* forall lock: a table being traversed cannot change length (compile-time or run-time rejection)
LockProgs(k) ==
  IF k \in {"ti", "ts", "tt"} THEN
    { <<Forall("E", X, "auto", <<Do(Mem(X, "concat", <<Args(k)[1]>>))>>)>>,
      <<Forall("E", X, "auto", <<Do(Mem(X, "delete", <<I(0)>>))>>)>>,
      <<Forall("E", X, "auto", <<Let("X", Init0(k))>>)>>,
      <<Forall("E", X, "auto", <<Do(Mem(X, "insert", <<I(0), Args(k)[1]>>))>>)>> }
  ELSE {}
\* the iterator of a forall stands for the element: assigning it anything that is not exactly of the element's type
\* (another tuple structure, another table dimension, the other numeric type, a null of another type) is refused,
\* directly and through an opaque route; a value of the right type is written through
IterProgs(k) ==
  IF k \in {"ti", "td", "ts", "tu", "tt"} THEN
    \* (an opaque value is refused for a type-constrained variable when the text is compiled, whatever it would be;
    \*  a null tuple for an element with a structure is not pinned: neither is generated)
    LET ok == {a \in DOMAIN Args(k) : ~(k = "tu" /\ Args(k)[a] = Call("tup", <<>>))} IN
    { <<Forall("E", X, "auto", <<Let("E", Args(k)[a])>>)>> : a \in ok }
    \cup { <<Forall("E", X, "desc", <<Let("Y", V("E")), Let("E", Args(k)[a]), Let("E", V("Y"))>>)>> : a \in ok }
  ELSE {}

\* tuple ranks beyond the machine word (the rank is a coded value, checked at compile time or at run time)
RankProgs == { <<Let("Y", ItemRaw(X, t))>> : t \in {"4294967297", "4294967296", "99999999999999999999", "18446744073709551617"} }
             \cup { <<Let("Y", ItemRaw(Call("tup", <<I(1)>>), t))>> : t \in {"4294967297", "99999999999999999999"} }
\* two different tuple structures must never be taken for each other
Structs == << <<D(3), B(TRUE), Str("s")>>, <<I(1), II, D(5), B(FALSE)>>, <<I(1), Str("a")>>, <<Str("a"), I(1)>>, <<I(1), Str("a"), I(2)>>,
              <<D(3), Str("a")>>, <<B(TRUE), I(1)>>, <<I(1), B(TRUE)>> >>
StructProgs == { << Let("X", Call("tab", <<I(1), Call("tup", Structs[i])>>)), Do(Mem(X, m, (IF m = "concat" THEN <<>> ELSE <<I(0)>>) \o <<Call("tup", Structs[j])>>)) >>
                   : i \in DOMAIN Structs, j \in DOMAIN Structs, m \in {"concat", "put", "insert"} }

Pre(k) == <<Func("FO", <<"P">>, <<Return(V("P"))>>), Let("X", Init0(k))>>
\* nested traversal of the same table: the lock must survive the inner loop
NestLock(k) ==
  IF k \in {"ti", "ts"} THEN
    { <<Forall("E", X, "auto", <<Forall("F", X, "auto", <<Nop>>), Do(Mem(X, "concat", <<Args(k)[1]>>))>>)>>,
      <<Forall("E", X, "auto", <<Forall("F", X, "auto", <<Nop>>), Do(Mem(X, "delete", <<I(0)>>))>>)>>,
      <<Forall("E", X, "auto", <<Forall("F", X, "auto", <<Nop>>), Let("X", Init0(k))>>)>>,
      <<Forall("E", X, "auto", <<Forall("F", X, "auto", <<Do(Mem(X, "concat", <<Args(k)[1]>>))>>)>>)>>,
      <<Forall("E", X, "auto", <<Forall("F", X, "auto", <<PutS(<<V("F")>>)>>), PutS(<<V("E")>>)>>), Do(Mem(X, "concat", <<Args(k)[1]>>)), Let("E", B(TRUE)), Let("F", B(TRUE))>> }
  ELSE IF k = "tt" THEN
    { <<Forall("E", X, "auto", <<Forall("F", Mem(X, "at", <<I(0)>>), "auto", <<Nop>>), Do(Mem(X, "delete", <<I(0)>>))>>)>>,
      <<Forall("E", X, "auto", <<Forall("F", V("E"), "auto", <<PutS(<<V("F")>>)>>)>>), Do(Mem(X, "delete", <<I(0)>>))>> }
  ELSE {}

\* the same methods through an ELEMENT of a container (X.at(0).concat(a), X.at(0).set@1(a)): the element non-null, set to null,
\* or an empty table; arguments of the inner element type, of other types, typed and untyped nulls, directly and through the opaque route
E0 == Mem(X, "at", <<I(0)>>)
ElemPre == << <<>>, <<Do(Mem(X, "put", <<I(0), NullC>>))>>, <<Do(Mem(X, "put", <<I(0), Call("tab", <<>>)>>))>>, <<Do(Mem(X, "put", <<I(0), Opaque(NullC)>>))>> >>
ElemArgs == ArgsX("ti") \o ArgsX("tt")
\* [ops, sok]: sok = the argument is written directly (its static type is known: the compiler may refuse the call whatever would
\* happen at run time)
NArgs(k) == Len(Args(k))
ElemSok(a) == a <= NArgs("ti") \/ (a > 2 * NArgs("ti") /\ a <= 2 * NArgs("ti") + NArgs("tt"))
ElemProgs == { [ops |-> ElemPre[i] \o <<Do(Mem(E0, "concat", <<ElemArgs[a]>>))>>, sok |-> ElemSok(a)] : i \in DOMAIN ElemPre, a \in DOMAIN ElemArgs }
             \cup { [ops |-> ElemPre[i] \o <<Do(Mem(E0, m, <<I(0), ElemArgs[a]>>))>>, sok |-> ElemSok(a)] : i \in DOMAIN ElemPre, a \in DOMAIN ElemArgs, m \in {"put", "insert"} }
             \cup { [ops |-> ElemPre[i] \o <<Do(Mem(E0, "concat", <<ElemArgs[a]>>)), Do(Mem(E0, "concat", <<ElemArgs[b]>>))>>, sok |-> ElemSok(a)] : i \in {2}, a \in DOMAIN ElemArgs, b \in {1, 3} }
TupElemPre == << <<>>, <<Do(Mem(X, "put", <<I(0), NullC>>))>>, <<Do(Mem(X, "put", <<I(0), Call("tup", <<>>)>>))>> >>
TupElemProgs == { [ops |-> TupElemPre[i] \o <<Do(SetAt(E0, j, ArgsX("tup")[a]))>>, sok |-> a <= NArgs("tup")] : i \in DOMAIN TupElemPre, j \in 1..2, a \in DOMAIN ArgsX("tup") }
                \cup { [ops |-> TupElemPre[i] \o <<Do(Mem(E0, "concat", <<ArgsX("tu")[a]>>))>>, sok |-> a <= NArgs("tu")] : i \in DOMAIN TupElemPre, a \in DOMAIN ArgsX("tu") }
\* tab(n, e) evaluates e for every element: an expression whose value changes from one evaluation to the next (an opaque function of a
\* string that grows) -- whatever it yields later (a null of another type, an untyped null, another type, a table), the
\* construction is refused or the table is uniform
VaryLater == <<"str()", "null", "2.5", "\"s\"", "tab(1, 1)", "num()", "int()", "tup(1, 2)", "bool()">>
VaryFirst == <<"1", "int()", "null", "2.5", "tup(1, \"a\")", "tab(1, 1)">>
VaryTexts == {"function FV(P) return undefined is begin if P.count() > 2 then return " \o VaryLater[l] \o "; end if; return " \o VaryFirst[f] \o "; end;\n"
              \o "S = \"a\"; T = tab(4, FV(S.concat(\"x\"))); print T.count();" : l \in DOMAIN VaryLater, f \in DOMAIN VaryFirst}
             \cup {"function FV(P) return undefined is begin if P.count() > 2 then return " \o VaryLater[l] \o "; end if; return " \o VaryFirst[f] \o "; end;\n"
                   \o "S = \"a\"; T = tab(1, " \o VaryFirst[f] \o "); for I in 1 to 3 loop T.concat(FV(S.concat(\"x\"))); end loop; print T.count();" : l \in DOMAIN VaryLater, f \in DOMAIN VaryFirst}
\* a container handed to its own in-place method: the argument is the value the container had before the call
\* (the elements are made distinct first, so that reading the source while it is being shifted shows)
SelfPut(k) == Do(Mem(X, "put", <<I(0), Args(k)[1]>>))
SelfProgs(k) ==
  IF k = "tup" THEN {} ELSE
    { <<SelfPut(k), Do(Mem(X, "insert", <<I(q), X>>))>> : q \in 0..4 }
    \cup { <<SelfPut(k), Do(Mem(X, "concat", <<X>>))>>,
           <<SelfPut(k), Do(Mem(X, "insert", <<I(1), X>>)), Do(Mem(X, "insert", <<I(2), X>>))>>,
           <<SelfPut(k), Do(Mem(X, "concat", <<X>>)), Do(Mem(X, "insert", <<I(1), X>>))>>,
           <<SelfPut(k), Do(Mem(X, "put", <<I(2), Mem(X, "at", <<I(0)>>)>>))>>,
           <<SelfPut(k), Do(Mem(X, "insert", <<I(1), Mem(X, "at", <<I(0)>>)>>))>>,
           <<SelfPut(k), Do(Mem(X, "concat", <<Mem(X, "at", <<I(0)>>)>>))>> }
VARIABLE p
Init == p \in UNION {{[k |-> k, ops |-> x, key |-> "self"] : x \in SelfProgs(k)} : k \in Kinds}
              \cup UNION {LET ops == TLCEval(Ops(k)) IN {[k |-> k, ops |-> <<ops[j]>>] : j \in DOMAIN ops} : k \in Kinds}
              \cup (IF H >= 2 THEN UNION {LET red == TLCEval(Reduced(k)) IN {[k |-> k, ops |-> <<red[i], red[j]>>] : i \in DOMAIN red, j \in DOMAIN red} : k \in Kinds} ELSE {})
              \* thorough tier: all triples of the reduced pool
              \cup (IF H >= 3 THEN UNION {LET red == TLCEval(Reduced(k)) IN {[k |-> k, ops |-> <<red[i], red[j], red[q]>>] : i \in DOMAIN red, j \in DOMAIN red, q \in DOMAIN red} : k \in Kinds} ELSE {})
              \cup UNION {{[k |-> k, ops |-> <<x[1]>>, lock |-> TRUE] : x \in LockProgs(k) \cup IterProgs(k)} : k \in Kinds}
              \cup UNION {{[k |-> k, ops |-> x, lock |-> TRUE] : x \in NestLock(k)} : k \in Kinds}
              \cup {[k |-> "tt", ops |-> x.ops, sok |-> x.sok, key |-> "elem"] : x \in ElemProgs} \cup {[k |-> "tu", ops |-> x.ops, sok |-> x.sok, key |-> "elem"] : x \in TupElemProgs}
              \cup {[k |-> "vary", t |-> x] : x \in VaryTexts}
              \cup {[k |-> "tup", ops |-> x] : x \in RankProgs} \cup {[k |-> "tup", ops |-> x, key |-> "struct"] : x \in StructProgs}
Next == UNCHANGED p
ExecStep(prog) == [op |-> "exec", ctx |-> 0, ast |-> prog, text |-> Render(prog), unpinned |-> TRUE]
Scenario(q) ==
  IF q.k = "vary" THEN [prop |-> "C09", key |-> "vary",
                        steps |-> << [op |-> "exec", ctx |-> 0, free |-> TRUE, text |-> q.t], [op |-> "dump", ctx |-> 0],
                                     [op |-> "step", ctx |-> 1, free |-> TRUE, text |-> q.t], [op |-> "dump", ctx |-> 1] >>] ELSE
  LET Steps[j \in 0..Len(q.ops)] ==
        IF j = 0 THEN << [op |-> "exec", ctx |-> 0, ast |-> Pre(q.k), text |-> Render(Pre(q.k))], [op |-> "dump", ctx |-> 0] >>
        ELSE Steps[j - 1] \o << (IF "sok" \in DOMAIN q /\ q.sok THEN ExecStep(<<q.ops[j]>>) @@ [static_ok |-> TRUE] ELSE ExecStep(<<q.ops[j]>>)), [op |-> "dump", ctx |-> 0] >>
  IN [prop |-> "C09", key |-> IF "key" \in DOMAIN q THEN q.key ELSE q.k, steps |-> Steps[Len(q.ops)]]
Emit == PrintT("@@S " \o ToJson(Scenario(p)))
=============================================================================
