SPECIFICATION Spec
CONSTANTS Modules = {"csv", "utf8"}
          MaxLen = 3
INVARIANT Emit
CHECK_DEADLOCK FALSE
