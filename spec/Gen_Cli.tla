------------------------------ MODULE Gen_Cli ------------------------------
(* Scenario generator for interactive sessions: behaviours of BlocCli, printed as the command lines to type.      *)
(*   GEN_PART = bfs   : every sequence of BFS_LEN commands after each seed (exhaustive)                          *)
(*   GEN_PART = round : every sequence of <= 3 statements, then  save 1, run, clear, load 1, run, list           *)
(*                      (C12: what `save` wrote, loaded into a cleared session, behaves like the session it was)  *)
(*   simulation       : random walks of GEN_LEN commands, weighted                                               *)
EXTENDS BlocCli, Json, IOUtils
EnvN(name, dflt) == IF name \in DOMAIN IOEnv THEN atoi(IOEnv[name]) ELSE dflt
EnvS(name, dflt) == IF name \in DOMAIN IOEnv THEN IOEnv[name] ELSE dflt
Part   == EnvS("GEN_PART", "bfs")
BfsLen == EnvN("BFS_LEN", 2)
MaxLen == EnvN("GEN_LEN", 12)

CmdJson(c) == IF c.c = "stmt" THEN [c |-> "stmt", id |-> c.id, text |-> Render(<<c.s>>)]
              ELSE IF c.c = "expr" THEN [c |-> "expr", id |-> c.id, text |-> RE_(c.e)]
              ELSE c
Scenario(h) == [prop |-> "C19", key |-> "session",
                steps |-> <<[op |-> "cli", mode |-> "session", args |-> <<>>, cmds |-> [k \in DOMAIN h |-> CmdJson(h[k])]]>>]

Sv(f) == [c |-> "save", f |-> f]
Ld(f) == [c |-> "load", f |-> f]
Seeds == { <<>>,
           <<StmtById("x1"), StmtById("f2"), StmtById("pf"), Sv(1)>>,
           <<StmtById("x1"), StmtById("t"), StmtById("for"), StmtById("ret"), Sv(1), [c |-> "clear"], Ld(1)>>,
           <<StmtById("x1"), StmtById("div"), StmtById("px"), Sv(2), StmtById("f10"), StmtById("xinc")>> }
VARIABLE base    \* length of the seed this behaviour started from
gvars == <<m, hist, base>>
InitBfs == \E s \in Seeds : hist = s /\ m = Fold(M0, s) /\ base = Len(s)
NextG == Next /\ UNCHANGED base
BfsBound == Len(hist) - base <= BfsLen
EmitBfs == (Len(hist) - base # BfsLen /\ ~m.unk) \/ PrintT("@@S " \o ToJson(Scenario(hist)))

\* round trips
Tail6 == <<Sv(1), [c |-> "run"], [c |-> "clear"], Ld(1), [c |-> "run"], [c |-> "list"]>>
AllAccepted(h) == Len(Fold(M0, h).pool) = Len(h)
RECURSIVE SeqsUpTo(_)
\* accepted sequences only, built by extension (a refused statement leaves nothing to save)
SeqsUpTo(n) == IF n = 0 THEN {<<>>} ELSE LET p == SeqsUpTo(n - 1) IN p \cup {Append(h, a) : h \in {x \in p : Len(x) = n - 1 /\ AllAccepted(x)}, a \in Stmts}
Seqs3 == SeqsUpTo(EnvN("ROUND_LEN", 3))
\* only sequences whose statements are all accepted (a refused statement leaves nothing to save)
InitRound == \E s \in {x \in Seqs3 : AllAccepted(x)} : hist = s \o Tail6 /\ m = Fold(M0, hist) /\ base = 0
EmitRound == PrintT("@@S " \o ToJson(Scenario(hist)))
Stutter == UNCHANGED gvars

\* simulation
Weighted == <<"x1", "xinc", "px", "f2", "f10", "pf", "ret", "div", "put", "for", "t", "pt", "pd", "pd", "parg", "dn", "pdn", "exc", "if", "px", "pf", "xinc",
              "ex", "ef", "ed", "run", "run", "run", "clear", "list", "list", "save1", "save1", "save2", "load1", "load1", "load2">>
ByName(w) == IF w \in {x.id : x \in Stmts} THEN StmtById(w)
             ELSE IF w \in {x.id : x \in Exprs} THEN CHOOSE x \in Exprs : x.id = w
             ELSE IF w = "save1" THEN Sv(1) ELSE IF w = "save2" THEN Sv(2) ELSE IF w = "load1" THEN Ld(1) ELSE IF w = "load2" THEN Ld(2)
             ELSE [c |-> w]
InitSim == hist = <<>> /\ m = M0 /\ base = 0
SimNext == /\ Len(hist) < MaxLen /\ ~m.unk
           /\ \E j \in {RandomElement(DOMAIN Weighted)} : LET c == ByName(Weighted[j]) IN m' = Post(m, c) /\ hist' = Append(hist, c)
           /\ UNCHANGED base
SimSpec == InitSim /\ [][SimNext]_gvars
EmitSim == (Len(hist) # MaxLen /\ ~m.unk) \/ PrintT("@@S " \o ToJson(Scenario(hist)))
=============================================================================
