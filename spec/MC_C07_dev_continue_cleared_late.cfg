INIT Init
NEXT Next
CONSTANT Dev = {"continue_cleared_late"}
INVARIANT RefinesBatch
INVARIANT NoResidueBatch
INVARIANT RefinesStepwise
INVARIANT NoResidueStepwise
CHECK_DEADLOCK FALSE
