------------------------------ MODULE Gen_C17 ------------------------------
(***************************************************************************)
(* Scenario generator for C17: all sequences of up to H statements from a  *)
(* pool that creates, copies, stores, overwrites, returns and drops        *)
(* references to objects of the verification module through variables,     *)
(* tables, tuples, function parameters and results, temporaries, loops and *)
(* error exits; plus clone / free orders.  Every statement is its own      *)
(* compilation unit; the module's event log (create / method / destroy) is *)
(* recorded per step and judged by the lifetime monitor of TraceProg.      *)
(***************************************************************************)
EXTENDS Bloc, Json, IOUtils
Env(n, d) == IF n \in DOMAIN IOEnv THEN IOEnv[n] ELSE d
H == atoi(Env("GEN_DEPTH", "2"))

A == V("A")  Bv == V("B")  Tt == V("T")  U == V("U")
NotNull(x, ss) == If(Un("not", Call("isnull", <<x>>)), ss, <<>>)
Prelude == << Func("FK", <<"P">>, <<Return(V("P"))>>),
              Func("FN", <<>>, <<Let("L", OCtor(I(50))), Let("L2", V("L")), Return(V("L2"))>>),
              Func("FD", <<"P">>, <<Let("Q", V("P")), Return(I(1))>>),
              \* a function that fails while a parameter and a local hold objects
              Func("FE", <<"P">>, <<Let("L", OCtor(I(60))), Let("Q", V("P")), RaiseS("E1")>>),
              \* two parameters: an object is bound to the first when the evaluation of the second argument fails
              Func("FK2", <<"P", "Q">>, <<Return(V("P"))>>),
              Let("A", OCtor(I(1))), Let("B", OCtor(I(2))), Let("T", Call("tab", <<I(1), A>>)), Let("U", Call("tup", <<I(1), Bv>>)),
              \* a table of tables whose only row holds an object nothing else refers to
              Let("TT", Call("tab", <<I(1), Call("tab", <<I(1), OCtor(I(40))>>)>>)) >>

TTv == V("TT")
Pool == <<
  \* rows of a table of tables: a row given by a variable is copied (the variable keeps its objects, the replaced row's
  \* objects lose a reference at that moment), a row read back shares the objects
  NotNull(Tt, <<NotNull(TTv, <<Do(Mem(TTv, "put", <<I(0), Tt>>))>>)>>),
  NotNull(Tt, <<NotNull(TTv, <<Do(Mem(TTv, "insert", <<I(0), Tt>>))>>)>>),
  NotNull(Tt, <<Let("TT", Call("tab", <<I(2), Tt>>))>>),
  NotNull(TTv, <<Let("T", Mem(TTv, "at", <<I(0)>>))>>),
  Let("A", OCtor(I(3))), Let("B", A), LetN("A", T("obj")), Let("B", OCtor(A)), Let("A", Bv),
  Let("T", Call("tab", <<I(2), A>>)), NotNull(Tt, <<Do(Mem(Tt, "put", <<I(0), Bv>>))>>), NotNull(Tt, <<Do(Mem(Tt, "concat", <<A>>))>>),
  NotNull(Tt, <<Do(Mem(Tt, "delete", <<I(0)>>))>>), Let("T", Call("tab", <<I(0), OCtor(I(12))>>)),
  Let("U", Call("tup", <<I(1), A>>)), NotNull(U, <<Do(SetAt(U, 2, Bv))>>), Let("U", NullC), NotNull(U, <<Let("B", Item(U, 2))>>),
  NotNull(Tt, <<Let("B", Mem(Tt, "at", <<I(0)>>))>>),
  Let("B", UCall("FK", <<A>>)), Let("A", UCall("FN", <<>>)), Do(UCall("FN", <<>>)), Let("X", UCall("FD", <<A>>)),
  PrintS(<<Mem(OCtor(I(7)), "tag", <<>>)>>),
  NotNull(A, <<Do(Mem(A, "settag", <<I(5)>>)), PrintS(<<Mem(Mem(Mem(A, "self", <<>>), "self", <<>>), "id", <<>>), Mem(A, "tag", <<>>)>>)>>),
  Begin(<<Let("X", OCtor(I(8))), RaiseS("E1")>>, <<When("E1", <<Let("X", NullC)>>)>>),
  Let("Y", Mem(OCtor(I(9)), "fail", <<>>)),
  For("I", I(1), I(2), NoExpr, "auto", <<Let("W", OCtor(V("I")))>>),
  NotNull(Tt, <<Forall("E", Tt, "auto", <<NotNull(V("E"), <<PrintS(<<Mem(V("E"), "id", <<>>)>>)>>)>>)>>),
  Let("A", OCtor(I(666))),
  Begin(<<Let("X", UCall("FE", <<A>>))>>, <<When("E1", <<Nop>>)>>), Let("X", UCall("FE", <<Bv>>)),
  Begin(<<Let("X", UCall("FE", <<OCtor(I(61))>>))>>, <<When("OTHERS", <<Let("X", UCall("FD", <<A>>))>>)>>),
  \* a call that fails while its arguments are being bound (an object already given to an earlier parameter)
  Begin(<<Let("X", UCall("FK2", <<A, Bin("/", I(1), I(0))>>))>>, <<When("OTHERS", <<Nop>>)>>),
  Begin(<<Let("X", UCall("FK2", <<OCtor(I(71)), Mem(OCtor(I(72)), "fail", <<>>)>>))>>, <<When("OTHERS", <<Let("X", UCall("FK2", <<Bv, I(1)>>))>>)>>),
  \* the iterator of a traversal given a new object, then copied and the copy dropped: the element still holds the object
  NotNull(Tt, <<Forall("E", Tt, "auto", <<Let("E", OCtor(I(31))), Let("X", V("E")), Let("X", NullC)>>),
                NotNull(Mem(Tt, "at", <<I(0)>>), <<PrintS(<<Mem(Mem(Tt, "at", <<I(0)>>), "tag", <<>>)>>)>>)>>),
  NotNull(Tt, <<Forall("E", Tt, "auto", <<Let("E", OCtor(I(32))), PrintS(<<Bin("==", Mem(V("E"), "tag", <<>>), I(32))>>), NotNull(V("E"), <<PrintS(<<Mem(V("E"), "id", <<>>)>>)>>)>>)>>),
  NotNull(A, <<NotNull(Bv, <<PrintS(<<Mem(A, "other", <<Bv>>), Mem(A, "echo", <<I(4)>>), Mem(Bv, "echo", <<Str("s")>>), Mem(A, "sum", <<I(2), D(3)>>)>>)>>)>>)
>>

RECURSIVE Seqs(_)
Seqs(n) == IF n = 0 THEN {<<>>} ELSE {Append(h, c) : h \in Seqs(n - 1), c \in DOMAIN Pool}
ExecStep(c, prog) == [op |-> "exec", ctx |-> c, ast |-> prog, text |-> Render(prog)]

\* a call site evaluated several times while its variable comes to hold an object of another module: the method of one
\* module must never run on the other module's object (the text is rejected, or the run fails when it gets there)
Foreign == <<
  "A = vobj(1);\nfor I in 1 to 3 loop print A.tag(); A = utf8(\"x\"); end loop;\nprint \"end\";",
  "A = utf8(\"x\");\nfor I in 1 to 3 loop print A.count(); A = vobj(1); end loop;\nprint \"end\";",
  "A = vobj(1); K = 0;\nwhile K < 3 loop K = K + 1; print A.tag(); A = utf8(\"x\"); end loop;\nprint \"end\";",
  "A = vobj(1); B = utf8(\"x\");\nfor I in 1 to 3 loop print A.self().tag(); if I == 2 then A = B; end if; end loop;\nprint \"end\";",
  "T = tab(2, vobj(1));\nforall E in T loop print E.tag(); E = utf8(\"x\"); print E.tag(); end loop;\nprint \"end\";"
>>
\* very many references to one object (more than a 16-bit counter holds): it stays alive until the last one is gone
Many == << [t |-> "A = vobj(1);", ev |-> <<"create">>],
           [t |-> "T = tab(70000, A); T.delete(0); B = T.at(5); U = tup(1, A);", ev |-> <<>>],
           [t |-> "print A.tag() B.tag() T.at(69000).tag();", ev |-> <<"method", "method", "method">>],
           [t |-> "T = null; B = null;", ev |-> <<>>],
           [t |-> "print A.tag() (U@2).tag();", ev |-> <<"method", "method">>],
           [t |-> "U = null; A = null;", ev |-> <<"destroy">>] >>
VARIABLE p
Init == p \in {[kind |-> "seq", h |-> h] : h \in UNION {Seqs(n) : n \in 0..H}} \cup {[kind |-> "many", h |-> <<>>]}
              \cup {[kind |-> "foreign", h |-> <<j>>] : j \in DOMAIN Foreign}
              \cup {[kind |-> k, h |-> h] : k \in {"clone1", "clone2", "purge"}, h \in UNION {Seqs(n) : n \in 0..1}}
Next == UNCHANGED p
Scenario(q) ==
  IF q.kind = "many" THEN
    [prop |-> "C17", key |-> "many",
     steps |-> << [op |-> "new", ctx |-> 0, trusted |-> TRUE], [op |-> "exec", ctx |-> 0, free |-> TRUE, text |-> "import vobj;"] >>
               \o [j \in DOMAIN Many |-> [op |-> "exec", ctx |-> 0, free |-> TRUE, text |-> Many[j].t, expect_ev |-> Many[j].ev]]
               \o << [op |-> "free", ctx |-> 0] >>]
  ELSE IF q.kind = "foreign" THEN
    [prop |-> "C17", key |-> "foreign",
     steps |-> << [op |-> "new", ctx |-> 0, trusted |-> TRUE], [op |-> "exec", ctx |-> 0, free |-> TRUE, text |-> "import vobj; import utf8;"],
                  [op |-> "exec", ctx |-> 0, free |-> TRUE, must_fail |-> TRUE, text |-> Foreign[q.h[1]]],
                  [op |-> "new", ctx |-> 1, trusted |-> TRUE],
                  [op |-> "step", ctx |-> 1, free |-> TRUE, must_fail |-> TRUE, text |-> Foreign[q.h[1]]], [op |-> "free", ctx |-> 0], [op |-> "free", ctx |-> 1] >>]
  ELSE
  LET Ops[j \in 0..Len(q.h)] == IF j = 0 THEN <<>> ELSE Ops[j - 1] \o <<ExecStep(0, <<Pool[q.h[j]]>>)>>
      start == << [op |-> "new", ctx |-> 0, trusted |-> TRUE], [op |-> "exec", ctx |-> 0, free |-> TRUE, text |-> "import vobj;"],
                  [op |-> "new", ctx |-> 0, trusted |-> TRUE], ExecStep(0, Prelude) >>
      tail == CASE q.kind = "seq" -> << [op |-> "dump", ctx |-> 0], [op |-> "free", ctx |-> 0] >>
                [] q.kind = "clone1" -> \* the original is freed first, the clone keeps the objects alive
                     << [op |-> "clone", ctx |-> 1, from |-> 0], [op |-> "free", ctx |-> 0],
                        ExecStep(1, <<NotNull(A, <<PrintS(<<Mem(A, "id", <<>>)>>)>>), Let("A", NullC)>>), [op |-> "dump", ctx |-> 1], [op |-> "free", ctx |-> 1] >>
                [] q.kind = "clone2" -> \* the clone is freed first
                     << [op |-> "clone", ctx |-> 1, from |-> 0], ExecStep(1, <<Let("B", NullC), Let("T", NullC)>>), [op |-> "free", ctx |-> 1],
                        ExecStep(0, <<NotNull(Bv, <<PrintS(<<Mem(Bv, "id", <<>>)>>)>>)>>), [op |-> "dump", ctx |-> 0], [op |-> "free", ctx |-> 0] >>
                [] q.kind = "purge" ->
                     << [op |-> "purge", ctx |-> 0], ExecStep(0, <<Let("A", OCtor(I(11)))>>), [op |-> "dump", ctx |-> 0], [op |-> "free", ctx |-> 0] >>
  IN [prop |-> "C17", key |-> q.kind, objects |-> TRUE, steps |-> start \o Ops[Len(q.h)] \o tail]
Emit == PrintT("@@S " \o ToJson(Scenario(p)))
=============================================================================
