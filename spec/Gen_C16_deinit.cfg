SPECIFICATION Spec
CONSTANTS Modules = {"csv"}
          Alphabet = "deinit"
          MaxLen = 5
INVARIANT Emit
CHECK_DEADLOCK FALSE
