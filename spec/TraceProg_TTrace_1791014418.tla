---- MODULE TraceProg_TTrace_1791014418 ----
EXTENDS Sequences, TLCExt, TraceProg, Toolbox, Naturals, TLC

_expression ==
    LET TraceProg_TEExpression == INSTANCE TraceProg_TEExpression
    IN TraceProg_TEExpression!expression
----

_trace ==
    LET TraceProg_TETrace == INSTANCE TraceProg_TETrace
    IN TraceProg_TETrace!trace
----

_inv ==
    ~(
        TLCGet("level") = Len(_TETrace)
        /\
        C = ((0 :> [vars |-> [T |-> [t |-> "tab", v |-> <<[id |-> 1, t |-> "obj"]>>, ty |-> [m |-> "obj", d |-> <<>>, l |-> 1]], B |-> [id |-> 2, t |-> "obj"], A |-> [id |-> 1, t |-> "obj"], U |-> [t |-> "tup", v |-> <<[t |-> "int", v |-> 1], [id |-> 2, t |-> "obj"]>>, ty |-> [m |-> "row", d |-> <<"int", "obj">>, l |-> 0]]], sig |-> "", err |-> [kind |-> "", name |-> ""], out |-> "", rv |-> [t |-> "null", ty |-> [m |-> "undef", d |-> <<>>, l |-> 0]], hasrv |-> FALSE, cerr |-> [kind |-> "", name |-> ""], depth |-> 0, inloop |-> 0, locked |-> {}, oev |-> <<>>, unk |-> FALSE, funcs |-> <<[n |-> "FK", b |-> <<[k |-> "return", e |-> [k |-> "var", n |-> "P"]]>>, ps |-> <<"P">>], [n |-> "FN", b |-> <<[k |-> "let", n |-> "L", e |-> [k |-> "octor", as |-> <<[k |-> "lit", v |-> [t |-> "int", v |-> 50]]>>]], [k |-> "let", n |-> "L2", e |-> [k |-> "var", n |-> "L"]], [k |-> "return", e |-> [k |-> "var", n |-> "L2"]]>>, ps |-> <<>>], [n |-> "FD", b |-> <<[k |-> "let", n |-> "Q", e |-> [k |-> "var", n |-> "P"]], [k |-> "return", e |-> [k |-> "lit", v |-> [t |-> "int", v |-> 1]]]>>, ps |-> <<"P">>]>>, nobj |-> 2, otags |-> <<1, 2>>]))
        /\
        G = ([n |-> 2, tags |-> <<1, 2>>, dead |-> {}])
        /\
        verdict = ("constructor/method calls seen by the module differ from the program; expected []")
        /\
        i = (1)
        /\
        k = (4)
    )
----

_init ==
    /\ C = _TETrace[1].C
    /\ G = _TETrace[1].G
    /\ i = _TETrace[1].i
    /\ k = _TETrace[1].k
    /\ verdict = _TETrace[1].verdict
----

_next ==
    /\ \E i,j \in DOMAIN _TETrace:
        /\ \/ /\ j = i + 1
              /\ i = TLCGet("level")
        /\ C  = _TETrace[i].C
        /\ C' = _TETrace[j].C
        /\ G  = _TETrace[i].G
        /\ G' = _TETrace[j].G
        /\ i  = _TETrace[i].i
        /\ i' = _TETrace[j].i
        /\ k  = _TETrace[i].k
        /\ k' = _TETrace[j].k
        /\ verdict  = _TETrace[i].verdict
        /\ verdict' = _TETrace[j].verdict

\* Uncomment the ASSUME below to write the states of the error trace
\* to the given file in Json format. Note that you can pass any tuple
\* to `JsonSerialize`. For example, a sub-sequence of _TETrace.
    \* ASSUME
    \*     LET J == INSTANCE Json
    \*         IN J!JsonSerialize("TraceProg_TTrace_1791014418.json", _TETrace)

=============================================================================

 Note that you can extract this module `TraceProg_TEExpression`
  to a dedicated file to reuse `expression` (the module in the 
  dedicated `TraceProg_TEExpression.tla` file takes precedence 
  over the module `TraceProg_TEExpression` below).

---- MODULE TraceProg_TEExpression ----
EXTENDS Sequences, TLCExt, TraceProg, Toolbox, Naturals, TLC

expression == 
    [
        \* To hide variables of the `TraceProg` spec from the error trace,
        \* remove the variables below.  The trace will be written in the order
        \* of the fields of this record.
        C |-> C
        ,G |-> G
        ,i |-> i
        ,k |-> k
        ,verdict |-> verdict
        
        \* Put additional constant-, state-, and action-level expressions here:
        \* ,_stateNumber |-> _TEPosition
        \* ,_CUnchanged |-> C = C'
        
        \* Format the `C` variable as Json value.
        \* ,_CJson |->
        \*     LET J == INSTANCE Json
        \*     IN J!ToJson(C)
        
        \* Lastly, you may build expressions over arbitrary sets of states by
        \* leveraging the _TETrace operator.  For example, this is how to
        \* count the number of times a spec variable changed up to the current
        \* state in the trace.
        \* ,_CModCount |->
        \*     LET F[s \in DOMAIN _TETrace] ==
        \*         IF s = 1 THEN 0
        \*         ELSE IF _TETrace[s].C # _TETrace[s-1].C
        \*             THEN 1 + F[s-1] ELSE F[s-1]
        \*     IN F[_TEPosition - 1]
    ]

=============================================================================



Parsing and semantic processing can take forever if the trace below is long.
 In this case, it is advised to uncomment the module below to deserialize the
 trace from a generated binary file.

\*
\*---- MODULE TraceProg_TETrace ----
\*EXTENDS IOUtils, TraceProg, TLC
\*
\*trace == IODeserialize("TraceProg_TTrace_1791014418.bin", TRUE)
\*
\*=============================================================================
\*

---- MODULE TraceProg_TETrace ----
EXTENDS TraceProg, TLC

trace == 
    <<
    ([C |-> <<>>,G |-> [n |-> 0, tags |-> <<>>, dead |-> {}],verdict |-> "",i |-> 1,k |-> 0]),
    ([C |-> (0 :> [vars |-> <<>>, sig |-> "", err |-> [kind |-> "", name |-> ""], out |-> "", rv |-> [t |-> "null", ty |-> [m |-> "undef", d |-> <<>>, l |-> 0]], hasrv |-> FALSE, cerr |-> [kind |-> "", name |-> ""], depth |-> 0, inloop |-> 0, locked |-> {}, oev |-> <<>>, unk |-> FALSE, funcs |-> <<>>, nobj |-> 0, otags |-> <<>>]),G |-> [n |-> 0, tags |-> <<>>, dead |-> {}],verdict |-> "",i |-> 1,k |-> 1]),
    ([C |-> (0 :> [vars |-> <<>>, sig |-> "", err |-> [kind |-> "", name |-> ""], out |-> "", rv |-> [t |-> "null", ty |-> [m |-> "undef", d |-> <<>>, l |-> 0]], hasrv |-> FALSE, cerr |-> [kind |-> "", name |-> ""], depth |-> 0, inloop |-> 0, locked |-> {}, oev |-> <<>>, unk |-> TRUE, funcs |-> <<>>, nobj |-> 0, otags |-> <<>>]),G |-> [n |-> 0, tags |-> <<>>, dead |-> {}],verdict |-> "",i |-> 1,k |-> 2]),
    ([C |-> (0 :> [vars |-> <<>>, sig |-> "", err |-> [kind |-> "", name |-> ""], out |-> "", rv |-> [t |-> "null", ty |-> [m |-> "undef", d |-> <<>>, l |-> 0]], hasrv |-> FALSE, cerr |-> [kind |-> "", name |-> ""], depth |-> 0, inloop |-> 0, locked |-> {}, oev |-> <<>>, unk |-> FALSE, funcs |-> <<>>, nobj |-> 0, otags |-> <<>>]),G |-> [n |-> 0, tags |-> <<>>, dead |-> {}],verdict |-> "",i |-> 1,k |-> 3]),
    ([C |-> (0 :> [vars |-> [T |-> [t |-> "tab", v |-> <<[id |-> 1, t |-> "obj"]>>, ty |-> [m |-> "obj", d |-> <<>>, l |-> 1]], B |-> [id |-> 2, t |-> "obj"], A |-> [id |-> 1, t |-> "obj"], U |-> [t |-> "tup", v |-> <<[t |-> "int", v |-> 1], [id |-> 2, t |-> "obj"]>>, ty |-> [m |-> "row", d |-> <<"int", "obj">>, l |-> 0]]], sig |-> "", err |-> [kind |-> "", name |-> ""], out |-> "", rv |-> [t |-> "null", ty |-> [m |-> "undef", d |-> <<>>, l |-> 0]], hasrv |-> FALSE, cerr |-> [kind |-> "", name |-> ""], depth |-> 0, inloop |-> 0, locked |-> {}, oev |-> <<>>, unk |-> FALSE, funcs |-> <<[n |-> "FK", b |-> <<[k |-> "return", e |-> [k |-> "var", n |-> "P"]]>>, ps |-> <<"P">>], [n |-> "FN", b |-> <<[k |-> "let", n |-> "L", e |-> [k |-> "octor", as |-> <<[k |-> "lit", v |-> [t |-> "int", v |-> 50]]>>]], [k |-> "let", n |-> "L2", e |-> [k |-> "var", n |-> "L"]], [k |-> "return", e |-> [k |-> "var", n |-> "L2"]]>>, ps |-> <<>>], [n |-> "FD", b |-> <<[k |-> "let", n |-> "Q", e |-> [k |-> "var", n |-> "P"]], [k |-> "return", e |-> [k |-> "lit", v |-> [t |-> "int", v |-> 1]]]>>, ps |-> <<"P">>]>>, nobj |-> 2, otags |-> <<1, 2>>]),G |-> [n |-> 2, tags |-> <<1, 2>>, dead |-> {}],verdict |-> "constructor/method calls seen by the module differ from the program; expected []",i |-> 1,k |-> 4])
    >>
----


=============================================================================

---- CONFIG TraceProg_TTrace_1791014418 ----

INVARIANT
    _inv

CHECK_DEADLOCK
    \* CHECK_DEADLOCK off because of PROPERTY or INVARIANT above.
    FALSE

INIT
    _init

NEXT
    _next

CONSTANT
    _TETrace <- _trace

ALIAS
    _expression
=============================================================================
\* Generated on Sat Oct 03 08:00:20 UTC 2026