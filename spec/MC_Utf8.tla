------------------------------- MODULE MC_Utf8 -------------------------------
(* The decoder recovers exactly the characters a text was built from, for all sequences of <= 4 pieces out of  *)
(* well-formed characters of every length, and rejects texts with a stray / truncated / forbidden byte.       *)
EXTENDS ModUtf8
Pieces == << <<65>>, <<127>>, <<194, 128>>, <<195, 169>>, <<223, 191>>, <<224, 160, 128>>, <<226, 130, 172>>, <<237, 159, 191>>, <<239, 191, 189>>,
             <<240, 144, 128, 128>>, <<240, 159, 152, 128>>, <<244, 143, 191, 191>> >>
Bad == << <<128>>, <<255>>, <<195>>, <<192, 128>>, <<224, 128, 128>>, <<237, 160, 128>>, <<240, 128, 128, 128>>, <<244, 144, 128, 128>>, <<226, 130>>, <<193, 191>> >>
VARIABLE s
Init == s \in UNION {[1..n -> 1..(Len(Pieces) + Len(Bad))] : n \in 0..3}
Next == UNCHANGED s
PieceOf(k) == IF k <= Len(Pieces) THEN Pieces[k] ELSE Bad[k - Len(Pieces)]
Text == Flatten([j \in DOMAIN s |-> PieceOf(s[j])])
AllGood == \A j \in DOMAIN s : s[j] <= Len(Pieces)
DecoderCorrect == /\ (AllGood => Decode(Text).ok /\ Decode(Text).chars = [j \in DOMAIN s |-> PieceOf(s[j])])
                  \* a bad piece at the end (nothing can complete it) makes the text ill-formed
                  /\ (s # <<>> /\ s[Len(s)] > Len(Pieces) /\ (\A j \in 1..(Len(s) - 1) : s[j] <= Len(Pieces)) => ~Decode(Text).ok)
=============================================================================
