INIT InitBfs
NEXT NextG
INVARIANT EmitBfs
CONSTRAINT BfsBound
CHECK_DEADLOCK FALSE
