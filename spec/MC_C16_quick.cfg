SPECIFICATION Spec
CONSTANTS Modules = {"csv", "utf8"}
          Alphabet = "full"
          MaxLen = 4
INVARIANT NoUngrantedObject
INVARIANT UntrustedNeverLoadsByPath
INVARIANT TrustedUnrestricted
CHECK_DEADLOCK FALSE
