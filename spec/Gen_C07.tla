------------------------------ MODULE Gen_C07 ------------------------------
(***************************************************************************)
(* Scenario generator for C07: a failing operation at the bottom of every  *)
(* nesting (Shapes.tla) up to depth D, run as one unit and statement at a  *)
(* time, followed by a probe program in the same context and a dump.       *)
(***************************************************************************)
EXTENDS Shapes

Prelude == <<Func("FDIV", <<"A">>, <<Return(Bin("/", I(1), V("A")))>>), Let("TT", Call("tab", <<I(2), I(7)>>))>>
\* the table TT is traversed around the whole nest, so that its read-only lock is at stake too
Main(x) == Prelude \o x.defs \o <<Forall("EE", V("TT"), "auto", x.body)>> \o <<P("after")>>
Probe == <<Break, For("J", I(1), I(3), NoExpr, "auto", <<PutS(<<V("J")>>)>>), P(""),
           Let("I1", Str("s")), Let("I2", Str("s")), Let("E1", Str("s")), Let("E2", Str("s")), Let("EE", Str("s")),
           \* the iterator of an inner traversal of the same table is free again, and can be an iterator again
           Let("EF", Str("s")), Forall("EF", V("TT"), "auto", <<PutS(<<V("EF")>>)>>), Let("EF", I(0)),
           Do(Mem(V("TT"), "put", <<I(0), I(5)>>)), Let("X", UCall("FDIV", <<I(1)>>)), P("ok")>>

Hash(x) == (Len(ToString(x)) * 7919 + Seed * 104729) % 1000003
AllShapes == UNION {Shapes(d) : d \in 0..(Depth - 1)} \cup
             (IF Sample = 1 THEN Shapes(Depth)
              ELSE LET S == Shapes(Depth) IN {x \in S : RandomElement(1..Sample) = 1})

\* second form: the nest is itself the top-level statement (matters for statement-at-a-time execution)
Main2(x) == Prelude \o x.defs \o x.body \o <<P("after")>>
Bare == UNION {Shapes(d) : d \in 0..(Depth - 1)}

\* third form: the table is traversed twice around the nest (an inner traversal starts while the table is already locked)
Main3(x) == Prelude \o <<Forall("EE", V("TT"), "auto", <<Forall("EF", V("TT"), "auto", x.body), P("mid")>>)>> \o <<P("after")>>
Twice == {x \in UNION {Shapes(d) : d \in 0..1} : x.defs = <<>>}
VARIABLE p
Init == p \in {[x |-> x, m |-> Main(x)] : x \in AllShapes} \cup {[x |-> x, m |-> Main2(x)] : x \in Bare} \cup {[x |-> x, m |-> Main3(x)] : x \in Twice}
Next == UNCHANGED p
Scenario(q) ==
  LET m == q.m IN
  [prop |-> "C07",
   steps |-> << [op |-> "exec", ctx |-> 0, ast |-> m, text |-> Render(m)],
                [op |-> "exec", ctx |-> 0, ast |-> Probe, text |-> Render(Probe)],
                [op |-> "dump", ctx |-> 0],
                [op |-> "step", ctx |-> 1, ast |-> m, text |-> Render(m)],
                [op |-> "step", ctx |-> 1, ast |-> Probe, text |-> Render(Probe)],
                [op |-> "dump", ctx |-> 1] >>]
Emit == PrintT("@@S " \o ToJson(Scenario(p)))
=============================================================================
