INIT Init
NEXT Next
CONSTANT Dev = "none"
INVARIANT RoundTrip
INVARIANT Minimal
CHECK_DEADLOCK FALSE
