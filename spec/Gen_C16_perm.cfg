SPECIFICATION Spec
CONSTANTS Modules = {"csv", "utf8"}
          Alphabet = "perm"
          MaxLen = 4
INVARIANT Emit
CHECK_DEADLOCK FALSE
