SPECIFICATION Spec
INVARIANT LoadsAfterClear
CONSTRAINT Bounded
CHECK_DEADLOCK FALSE
