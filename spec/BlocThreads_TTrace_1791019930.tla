---- MODULE BlocThreads_TTrace_1791019930 ----
EXTENDS BlocThreads, Sequences, TLCExt, Toolbox, Naturals, TLC

_expression ==
    LET BlocThreads_TEExpression == INSTANCE BlocThreads_TEExpression
    IN BlocThreads_TEExpression!expression
----

_trace ==
    LET BlocThreads_TETrace == INSTANCE BlocThreads_TETrace
    IN BlocThreads_TETrace!trace
----

_inv ==
    ~(
        TLCGet("level") = Len(_TETrace)
        /\
        acc = ({[loc |-> "level", t |-> 1, w |-> TRUE, sync |-> FALSE], [loc |-> "level", t |-> 2, w |-> TRUE, sync |-> FALSE]})
        /\
        pc = (<<2, 2>>)
        /\
        store = (<<1, 1>>)
        /\
        done = (<<"run", "run">>)
    )
----

_init ==
    /\ store = _TETrace[1].store
    /\ done = _TETrace[1].done
    /\ acc = _TETrace[1].acc
    /\ pc = _TETrace[1].pc
----

_next ==
    /\ \E i,j \in DOMAIN _TETrace:
        /\ \/ /\ j = i + 1
              /\ i = TLCGet("level")
        /\ store  = _TETrace[i].store
        /\ store' = _TETrace[j].store
        /\ done  = _TETrace[i].done
        /\ done' = _TETrace[j].done
        /\ acc  = _TETrace[i].acc
        /\ acc' = _TETrace[j].acc
        /\ pc  = _TETrace[i].pc
        /\ pc' = _TETrace[j].pc

\* Uncomment the ASSUME below to write the states of the error trace
\* to the given file in Json format. Note that you can pass any tuple
\* to `JsonSerialize`. For example, a sub-sequence of _TETrace.
    \* ASSUME
    \*     LET J == INSTANCE Json
    \*         IN J!JsonSerialize("BlocThreads_TTrace_1791019930.json", _TETrace)

=============================================================================

 Note that you can extract this module `BlocThreads_TEExpression`
  to a dedicated file to reuse `expression` (the module in the 
  dedicated `BlocThreads_TEExpression.tla` file takes precedence 
  over the module `BlocThreads_TEExpression` below).

---- MODULE BlocThreads_TEExpression ----
EXTENDS BlocThreads, Sequences, TLCExt, Toolbox, Naturals, TLC

expression == 
    [
        \* To hide variables of the `BlocThreads` spec from the error trace,
        \* remove the variables below.  The trace will be written in the order
        \* of the fields of this record.
        store |-> store
        ,done |-> done
        ,acc |-> acc
        ,pc |-> pc
        
        \* Put additional constant-, state-, and action-level expressions here:
        \* ,_stateNumber |-> _TEPosition
        \* ,_storeUnchanged |-> store = store'
        
        \* Format the `store` variable as Json value.
        \* ,_storeJson |->
        \*     LET J == INSTANCE Json
        \*     IN J!ToJson(store)
        
        \* Lastly, you may build expressions over arbitrary sets of states by
        \* leveraging the _TETrace operator.  For example, this is how to
        \* count the number of times a spec variable changed up to the current
        \* state in the trace.
        \* ,_storeModCount |->
        \*     LET F[s \in DOMAIN _TETrace] ==
        \*         IF s = 1 THEN 0
        \*         ELSE IF _TETrace[s].store # _TETrace[s-1].store
        \*             THEN 1 + F[s-1] ELSE F[s-1]
        \*     IN F[_TEPosition - 1]
    ]

=============================================================================



Parsing and semantic processing can take forever if the trace below is long.
 In this case, it is advised to uncomment the module below to deserialize the
 trace from a generated binary file.

\*
\*---- MODULE BlocThreads_TETrace ----
\*EXTENDS BlocThreads, IOUtils, TLC
\*
\*trace == IODeserialize("BlocThreads_TTrace_1791019930.bin", TRUE)
\*
\*=============================================================================
\*

---- MODULE BlocThreads_TETrace ----
EXTENDS BlocThreads, TLC

trace == 
    <<
    ([acc |-> {},pc |-> <<1, 1>>,store |-> <<0, 0>>,done |-> <<"run", "run">>]),
    ([acc |-> {[loc |-> "level", t |-> 2, w |-> TRUE, sync |-> FALSE]},pc |-> <<1, 2>>,store |-> <<0, 1>>,done |-> <<"run", "run">>]),
    ([acc |-> {[loc |-> "level", t |-> 1, w |-> TRUE, sync |-> FALSE], [loc |-> "level", t |-> 2, w |-> TRUE, sync |-> FALSE]},pc |-> <<2, 2>>,store |-> <<1, 1>>,done |-> <<"run", "run">>])
    >>
----


=============================================================================

---- CONFIG BlocThreads_TTrace_1791019930 ----
CONSTANTS
    N = 2
    Deviations = { "DevSharedLevelStamp" , "DevSharedErrorBuffer" , "DevSharedLastError" , "DevSharedRng" }

INVARIANT
    _inv

CHECK_DEADLOCK
    \* CHECK_DEADLOCK off because of PROPERTY or INVARIANT above.
    FALSE

INIT
    _init

NEXT
    _next

CONSTANT
    _TETrace <- _trace

ALIAS
    _expression
=============================================================================
\* Generated on Sat Oct 03 09:32:11 UTC 2026