SPECIFICATION Spec
CONSTANTS Modules = {"csv", "utf8"}
          Alphabet = "full"
          MaxLen = 5
INVARIANT NoUngrantedObject
INVARIANT UntrustedNeverLoadsByPath
INVARIANT TrustedUnrestricted
CHECK_DEADLOCK FALSE
