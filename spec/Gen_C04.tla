------------------------------ MODULE Gen_C04 ------------------------------
(* Scenario generator for C04: {true,false,null}^2 x provenance^2 x logical/relational operators,   *)
(* evaluated repeatedly in a loop, as if- and while-condition, then the literals are re-read.      *)
EXTENDS Bloc, Json, IOUtils
Thorough == "VERIF_TIER" \in DOMAIN IOEnv /\ IOEnv.VERIF_TIER = "thorough"

X3   == {"T", "F", "N"}
Prov == {"const", "ctor", "var", "uvar", "func", "ufunc", "elem", "conv", "convvar"}
BinOpsG == {"and", "or", "xor", "==", "!=", "<", "<=", ">", ">="}

ConstOf(x) == IF x = "T" THEN B(TRUE) ELSE IF x = "F" THEN B(FALSE) ELSE NullC
CtorOf(x)  == IF x = "T" THEN Call("bool", <<I(1)>>) ELSE IF x = "F" THEN Call("bool", <<I(0)>>) ELSE Call("bool", <<>>)

\* [pre |-> statements run before, e |-> operand expression]
Operand(x, p, sfx) ==
  CASE p = "const" -> [pre |-> <<>>, e |-> ConstOf(x)]
    [] p = "ctor"  -> [pre |-> <<>>, e |-> CtorOf(x)]
    [] p = "var"   -> [pre |-> <<Let("P" \o sfx, CtorOf(x))>>, e |-> V("P" \o sfx)]
    [] p = "uvar"  -> [pre |-> <<Let("P" \o sfx, ConstOf(x))>>, e |-> V("P" \o sfx)]
    [] p = "func"  -> [pre |-> <<Func("F" \o sfx, <<>>, <<Return(CtorOf(x))>>)>>, e |-> UCall("F" \o sfx, <<>>)]
    [] p = "ufunc" -> [pre |-> <<Func("F" \o sfx, <<>>, <<Return(ConstOf(x))>>)>>, e |-> UCall("F" \o sfx, <<>>)]
    \* the converter bool(x) applied to a constant / to a variable (which must stay what it was)
    [] p = "conv"  -> [pre |-> <<>>, e |-> Call("bool", <<IF x = "T" THEN I(1) ELSE IF x = "F" THEN I(0) ELSE NullC>>)]
    [] p = "convvar" -> [pre |-> <<Let("Q" \o sfx, IF x = "T" THEN I(1) ELSE IF x = "F" THEN I(0) ELSE NullC)>>, e |-> Call("bool", <<V("Q" \o sfx)>>)]
    [] p = "elem"  -> [pre |-> <<Let("T" \o sfx, Call("tab", <<I(1), CtorOf(x)>>))>>, e |-> Mem(V("T" \o sfx), "at", <<I(0)>>)]

Body(e) ==
  << For("I", I(1), I(3), NoExpr, "auto", <<Let("R", e), PutS(<<V("R"), Str(" ")>>)>>),
     PrintS(<<Str("")>>),
     If(e, <<PrintS(<<Str("Y")>>)>>, <<PrintS(<<Str("N")>>)>>),
     While(e, <<PrintS(<<Str("W")>>), Break>>),
     Let("Z", NullC), PrintS(<<Call("isnull", <<V("Z")>>), V("Z")>>),
     Let("ZT", B(TRUE)), Let("ZF", B(FALSE)), PrintS(<<V("ZT"), V("ZF")>>),
     Let("RR", e) >>

BinProg(op, x, px, y, py) ==
  LET a == Operand(x, px, "A")  b == Operand(y, py, "B")
  IN  a.pre \o b.pre \o Body(Bin(op, a.e, b.e))
NotProg(x, px) ==
  LET a == Operand(x, px, "A") IN a.pre \o Body(Un("not", a.e))

\* Ordering of two non-null booleans is not pinned by the manual (the code answers FALSE for every pair,
\* the manual says "binary content"): outside C04, which is about nulls -- not generated.
Pinned(op, x, y) == op \in {"and", "or", "xor", "==", "!="} \/ x = "N" \/ y = "N"
Progs == {BinProg(q[1], q[2], q[3], q[4], q[5]) :
            q \in {qq \in BinOpsG \X X3 \X Prov \X X3 \X Prov : Pinned(qq[1], qq[2], qq[4])}}
         \cup {NotProg(x, px) : x \in X3, px \in Prov}

\* the same stored value on both sides (x op x): a variable, a table element, a forall iterator
SameProg(op, x, px) == LET a == Operand(x, px, "A") IN a.pre \o Body(Bin(op, a.e, a.e))
IterProg(op, x) == << Let("TI", Call("tab", <<I(2), CtorOf(x)>>)), Let("N", I(0)),
                      Forall("E", V("TI"), "auto", <<Let("R", Bin(op, V("E"), V("E"))), PutS(<<V("R"), Str(" ")>>),
                                                     If(Bin(op, V("E"), V("E")), <<Let("N", Bin("+", V("N"), I(1)))>>, <<>>)>>),
                      PrintS(<<V("N")>>) >>
SameProgs == {SameProg(q[1], q[2], px) : q \in {qq \in BinOpsG \X X3 : Pinned(qq[1], qq[2], qq[2])}, px \in {"var", "uvar", "elem", "const", "func"}}
             \cup {IterProg(q[1], q[2]) : q \in {qq \in BinOpsG \X X3 : Pinned(qq[1], qq[2], qq[2])}}

\* thorough tier: three operands, both groupings, all truth values, the logical operators, four provenances each
LOps3 == {"and", "or", "xor"}
Prov3 == {"const", "var", "func", "elem"}
TriProg(o1, o2, x, px, y, py, z, pz, left) ==
  LET a == Operand(x, px, "A")  b == Operand(y, py, "B")  c == Operand(z, pz, "C")
  IN  a.pre \o b.pre \o c.pre \o Body(IF left THEN Bin(o2, Bin(o1, a.e, b.e), c.e) ELSE Bin(o1, a.e, Bin(o2, b.e, c.e)))
Progs3 == IF Thorough
          THEN {TriProg(o1, o2, x, px, y, py, z, pz, l) : o1 \in LOps3, o2 \in LOps3, x \in X3, y \in X3, z \in X3, px \in Prov3, py \in Prov3, pz \in Prov3, l \in BOOLEAN}
          ELSE {}
VARIABLE p
Init == p \in Progs \cup SameProgs \cup Progs3
Next == UNCHANGED p
Emit == PrintT("@@S " \o ToJson([prop |-> "C04",
          steps |-> << [op |-> "exec", ctx |-> 0, ast |-> p, text |-> Render(p)],
                       [op |-> "dump", ctx |-> 0] >>]))
=============================================================================
