INIT Init
NEXT Next
INVARIANT EmitBfs
CONSTRAINT BfsBound
CHECK_DEADLOCK FALSE
