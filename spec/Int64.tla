------------------------------- MODULE Int64 -------------------------------
(***************************************************************************)
(* Two's-complement integers of NL limbs of LW bits (least significant     *)
(* limb first), written from the reference manual: + - * and unary minus   *)
(* wrap modulo 2^(NL*LW); / and % truncate toward zero; & | ^ ~ act on all *)
(* bits; shifts fill with zeros, a negative displacement shifts the other  *)
(* way and |d| >= width gives 0; ** is exact modulo 2^width.               *)
(*                                                                         *)
(* TLC integers are 32-bit, so 64-bit values cannot be TLC integers: with  *)
(* LW = 8, NL = 8 this module is the 64-bit oracle of C03.  With LW = 4,   *)
(* NL = 2 the same operators are 8-bit and MC_Int64 checks them            *)
(* exhaustively against the mathematical definitions over TLC integers.    *)
(* Everything is strict (TLCEval) - lazily built limb vectors make TLC     *)
(* re-evaluate them at every use.                                          *)
(***************************************************************************)
EXTENDS Integers, Sequences, TLC
CONSTANTS LW, NL

RECURSIVE Pow2(_)
Pow2(n) == IF n = 0 THEN 1 ELSE 2 * Pow2(n - 1)
Base  == Pow2(LW)
Width == LW * NL
Idx   == 1..NL

Zero == [i \in Idx |-> 0]
One  == [i \in Idx |-> IF i = 1 THEN 1 ELSE 0]
AllOnes == [i \in Idx |-> Base - 1]
MinInt == [i \in Idx |-> IF i = NL THEN Base \div 2 ELSE 0]
MaxInt == [i \in Idx |-> IF i = NL THEN Base \div 2 - 1 ELSE Base - 1]

IsNeg(a) == a[NL] >= Base \div 2
IsZero(a) == \A i \in Idx : a[i] = 0

\* carry chain: c[i] = carry into limb i
AddC(a, b, cin) ==
  LET c[i \in 1..(NL + 1)] == IF i = 1 THEN cin ELSE (a[i - 1] + b[i - 1] + c[i - 1]) \div Base
  IN  TLCEval([i \in Idx |-> (a[i] + b[i] + c[i]) % Base])
Add(a, b) == AddC(a, b, 0)
Not(a)    == TLCEval([i \in Idx |-> Base - 1 - a[i]])
Neg(a)    == AddC(Not(a), Zero, 1)
Sub(a, b) == AddC(a, Not(b), 1)

\* bitwise and of two limbs (LW <= 8)
RECURSIVE BitAndR(_, _, _)
BitAndR(x, y, n) == IF n = 0 THEN 0 ELSE 2 * BitAndR(x \div 2, y \div 2, n - 1) + (IF x % 2 = 1 /\ y % 2 = 1 THEN 1 ELSE 0)
BitAnd(x, y) == BitAndR(x, y, LW)
And(a, b) == TLCEval([i \in Idx |-> BitAnd(a[i], b[i])])
Or(a, b)  == TLCEval([i \in Idx |-> a[i] + b[i] - BitAnd(a[i], b[i])])
Xor(a, b) == TLCEval([i \in Idx |-> a[i] + b[i] - 2 * BitAnd(a[i], b[i])])

\* unsigned comparison: -1, 0, 1
UCmp(a, b) ==
  LET d == {i \in Idx : a[i] # b[i]} IN
  IF d = {} THEN 0 ELSE LET m == CHOOSE i \in d : \A j \in d : j <= i IN IF a[m] < b[m] THEN -1 ELSE 1
\* signed comparison
SCmp(a, b) == IF IsNeg(a) # IsNeg(b) THEN (IF IsNeg(a) THEN -1 ELSE 1) ELSE UCmp(a, b)

\* multiplication modulo 2^Width (schoolbook, column sums stay far below 2^31 for LW <= 8)
Mul(a, b) ==
  LET col[k \in Idx] == LET S[i \in 0..k] == IF i = 0 THEN 0 ELSE S[i - 1] + a[i] * b[k + 1 - i] IN S[k]
      c[k \in 1..(NL + 1)] == IF k = 1 THEN 0 ELSE (col[k - 1] + c[k - 1]) \div Base
  IN  TLCEval([k \in Idx |-> (col[k] + c[k]) % Base])

Abs(a) == IF IsNeg(a) THEN Neg(a) ELSE a      \* magnitude as an unsigned number (|MIN| = 2^(Width-1) fits)
\* exact unsigned product (2*NL limbs), unsigned comparison and extension of wide numbers
WIdx == 1..(2 * NL)
MulWide(a, b) ==
  LET col[k \in WIdx] == LET lo == IF k > NL THEN k + 1 - NL ELSE 1
                              hi == IF k > NL THEN NL ELSE k
                              S[i \in (lo - 1)..hi] == IF i = lo - 1 THEN 0 ELSE S[i - 1] + a[i] * b[k + 1 - i]
                          IN  S[hi]
      c[k \in 1..(2 * NL + 1)] == IF k = 1 THEN 0 ELSE (col[k - 1] + c[k - 1]) \div Base
  IN  TLCEval([k \in WIdx |-> (col[k] + c[k]) % Base])
Widen(a) == [k \in WIdx |-> IF k <= NL THEN a[k] ELSE 0]
WCmp(a, b) ==
  LET d == {i \in WIdx : a[i] # b[i]} IN
  IF d = {} THEN 0 ELSE LET m == CHOOSE i \in d : \A j \in d : j <= i IN IF a[m] < b[m] THEN -1 ELSE 1
WSub(a, b) ==      \* a - b for a >= b
  LET c[i \in 1..(2 * NL + 1)] == IF i = 1 THEN 1 ELSE (a[i - 1] + (Base - 1 - b[i - 1]) + c[i - 1]) \div Base
  IN  TLCEval([i \in WIdx |-> (a[i] + (Base - 1 - b[i]) + c[i]) % Base])

\* Truncating division decided by verification instead of computation:  q = a / b  and  r = a % b  iff
\* |a| = |q|*|b| + |r| exactly, |r| < |b|, and the signs are right (the only wrapping case is MIN / -1).
DivModOk(a, b, q, r) ==
  IF a = MinInt /\ b = AllOnes THEN q = MinInt /\ IsZero(r)
  ELSE LET A == Abs(a)  B == Abs(b)  Q == Abs(q)  R == Abs(r)
           Pw == MulWide(Q, B)
       IN  /\ WCmp(Pw, Widen(A)) <= 0
           /\ WSub(Widen(A), Pw) = Widen(R)
           /\ UCmp(R, B) < 0
           /\ (IsZero(q) \/ IsNeg(q) = (IsNeg(a) # IsNeg(b)))
           /\ (IsZero(r) \/ IsNeg(r) = IsNeg(a))

\* logical shifts by n bits, 0 <= n
BitAt(a, k) == (a[(k \div LW) + 1] \div Pow2(k % LW)) % 2            \* bit k (0 = least significant)
ShlBits(a, n) ==
  IF n >= Width THEN Zero
  ELSE LET q == n \div LW  r == n % LW
           lo(i) == IF i - q >= 1 THEN (a[i - q] * Pow2(r)) % Base ELSE 0
           hi(i) == IF i - q - 1 >= 1 THEN a[i - q - 1] \div Pow2(LW - r) ELSE 0
       IN  TLCEval([i \in Idx |-> lo(i) + (IF r = 0 THEN 0 ELSE hi(i))])
ShrBits(a, n) ==
  IF n >= Width THEN Zero
  ELSE LET q == n \div LW  r == n % LW
           lo(i) == IF i + q <= NL THEN a[i + q] \div Pow2(r) ELSE 0
           hi(i) == IF i + q + 1 <= NL THEN (a[i + q + 1] * Pow2(LW - r)) % Base ELSE 0
       IN  TLCEval([i \in Idx |-> lo(i) + (IF r = 0 THEN 0 ELSE hi(i))])

\* the manual's shift operators; the displacement d is a TLC integer here (callers map huge
\* displacements to anything with |d| >= Width)
Shl(a, d) == IF d >= 0 THEN ShlBits(a, d) ELSE ShrBits(a, -d)
Shr(a, d) == IF d >= 0 THEN ShrBits(a, d) ELSE ShlBits(a, -d)

\* unsigned division by shift-subtract: returns <<quotient, remainder>>, d # 0
\* (strict tail recursion: a recursive function definition would be re-evaluated exponentially often)
RECURSIVE DivStep(_, _, _, _, _)
DivStep(n, d, k, q, r) ==      \* k bits still to process (from the most significant)
  IF k = 0 THEN <<q, r>>
  ELSE LET bit == BitAt(n, k - 1)
           r2 == TLCEval(AddC(ShlBits(r, 1), Zero, bit))
           ge == TLCEval(UCmp(r2, d) >= 0)
       IN  DivStep(n, d, k - 1, TLCEval(AddC(ShlBits(q, 1), Zero, IF ge THEN 1 ELSE 0)), TLCEval(IF ge THEN Sub(r2, d) ELSE r2))
UDivMod(n, d) == DivStep(n, d, Width, Zero, Zero)

\* truncating division and remainder (sign of the remainder = sign of the dividend); b # 0
Div(a, b) == LET qr == UDivMod(Abs(a), Abs(b)) IN IF IsNeg(a) # IsNeg(b) THEN Neg(qr[1]) ELSE qr[1]
Mod(a, b) == LET qr == UDivMod(Abs(a), Abs(b)) IN IF IsNeg(a) THEN Neg(qr[2]) ELSE qr[2]

\* a ** n modulo 2^Width for a TLC integer n >= 0 (square and multiply)
RECURSIVE PowU(_, _)
PowU(a, n) == IF n = 0 THEN One
              ELSE LET h == TLCEval(PowU(a, n \div 2))  s == TLCEval(Mul(h, h)) IN IF n % 2 = 1 THEN Mul(s, a) ELSE s

\* a ** e modulo 2^Width for an exponent given as limbs (unsigned): left-to-right square and multiply
RECURSIVE PowLFrom(_, _, _, _)
PowLFrom(a, e, k, acc) ==     \* bits k-1 .. 0 of e still to process
  IF k = 0 THEN acc
  ELSE LET sq == TLCEval(Mul(acc, acc)) IN
       PowLFrom(a, e, k - 1, TLCEval(IF BitAt(e, k - 1) = 1 THEN Mul(sq, a) ELSE sq))
PowL(a, e) == PowLFrom(a, e, Width, One)

\* conversions with TLC integers (|n| small enough)
RECURSIVE FromNat(_, _)
FromNat(n, i) == IF i > NL THEN <<>> ELSE <<n % Base>> \o FromNat(n \div Base, i + 1)
FromInt(n) == IF n >= 0 THEN FromNat(n, 1) ELSE Neg(FromNat(-n, 1))
\* value as a TLC integer (only for small widths / small values)
ToNat(a) == LET S[i \in 1..(NL + 1)] == IF i = NL + 1 THEN 0 ELSE S[i + 1] * Base + a[i] IN S[1]      \* Horner, from the top limb
ToInt(a) == IF IsNeg(a) THEN -ToNat(Neg(a)) ELSE ToNat(a)
FitsSmall(a) == \* |value| < 2^30: the upper limbs are pure sign extension
  LET k == 30 \div LW IN
  \/ (\A i \in Idx : i > k => a[i] = 0)
  \/ (\A i \in Idx : i > k => a[i] = Base - 1) /\ a[k] >= Base \div 2
=============================================================================
