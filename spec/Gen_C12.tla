------------------------------ MODULE Gen_C12 ------------------------------
(***************************************************************************)
(* Scenario generator for C12: compile a program, produce its text,        *)
(* compile that text in a second context, produce text again.              *)
(*  J (judged by the ideal layer): every ordered pair of operators         *)
(*     (parent, child, side) of the arithmetic / relational / logical      *)
(*     vocabulary and the unary shapes, written with the FEWEST            *)
(*     parentheses (Bloc!RMin) - so the first run also checks precedence   *)
(*     and associativity - and statement-level programs from the control,  *)
(*     exception and function generators.                                  *)
(*  R (relation only): literal forms (escapes, doubled quotes, hex,        *)
(*     exponents, 17-digit decimals, 2^63), bit operators, chained lets,   *)
(*     typed parameters, print adjacency: both runs must agree.            *)
(***************************************************************************)
EXTENDS Shapes

AOps == {"+", "-", "*", "/", "%", "**"}
ROps == {"==", "!=", "<", "<=", ">", ">="}
LOps == {"and", "or", "xor"}
a1 == I(7)  a2 == I(2)  a3 == I(3)
ArithTrees == {Bin(p, Bin(c, a1, a2), a3) : p \in AOps, c \in AOps} \cup {Bin(p, a1, Bin(c, a2, a3)) : p \in AOps, c \in AOps}
              \cup {Un("-", Bin(c, a1, a2)) : c \in AOps} \cup {Bin(c, Un("-", a1), a2) : c \in AOps} \cup {Bin(c, a1, Un("-", a2)) : c \in AOps \ {"**"}}
              \cup {Bin("-", Bin("-", a1, a2), Bin("-", a3, a1)), Bin("/", Bin("*", a1, a2), Bin("/", a3, a2)), Bin("**", Bin("**", a2, a2), a3)}
RelTrees == {Bin(r, Bin(c, a1, a2), a3) : r \in ROps, c \in {"+", "*", "**"}} \cup {Bin(r, a1, Bin(c, a2, a3)) : r \in ROps, c \in {"-", "%"}}
r1 == Bin("<", a2, a3)  r2 == Bin(">", a2, a3)  r3 == Bin("==", a1, a1)
LogTrees == {Bin(p, Bin(c, r1, r2), r3) : p \in LOps, c \in LOps} \cup {Bin(p, r1, Bin(c, r2, r3)) : p \in LOps, c \in LOps}
            \cup {Un("not", Bin(c, r1, r2)) : c \in LOps} \cup {Bin(c, Un("not", r1), r2) : c \in LOps} \cup {Bin(c, r1, Un("not", r2)) : c \in LOps}
            \cup {Un("not", Un("not", r1)), Bin("==", Bin("<", a2, a3), B(TRUE))}
\* thorough tier: three operators deep, every shape (left/right at both levels), and the three categories mixed
Thorough == Env("VERIF_TIER", "quick") = "thorough"
\* (small leaves keep every intermediate result inside TLC's integers)
b1 == I(3)  b2 == I(2)  b3 == I(1)
q1 == Bin("<", b2, b3)  q2 == Bin(">", b2, b3)
Deep3 == {Bin(p, Bin(c, Bin(g, b1, b2), b3), b2) : p \in AOps, c \in AOps, g \in AOps}
         \cup {Bin(p, b1, Bin(c, b2, Bin(g, b3, b2))) : p \in AOps, c \in AOps, g \in AOps}
         \cup {Bin(p, Bin(c, b1, Bin(g, b2, b3)), b2) : p \in AOps, c \in AOps, g \in AOps}
         \cup {Bin(p, b1, Bin(c, Bin(g, b2, b3), b2)) : p \in AOps, c \in AOps, g \in AOps}
         \cup {Bin(p, Bin(c, b1, b2), Bin(g, b3, b2)) : p \in AOps, c \in AOps, g \in AOps}
         \cup {Un("-", Bin(p, Un("-", Bin(c, b1, b2)), b3)) : p \in AOps, c \in AOps}
Mixed3 == {Bin(l, Bin(r, Bin(c, b1, b2), b3), Bin(rr, b2, Bin(c, b3, b1))) : l \in LOps, r \in ROps, rr \in {"<", "=="}, c \in {"+", "*", "**", "-"}}
          \cup {Un("not", Bin(l, Bin(r, b1, Bin(c, b2, b3)), q1)) : l \in LOps, r \in ROps, c \in AOps}
          \cup {Bin(l, Un("not", Bin(r, Un("-", b1), b2)), Bin(l2, q1, q2)) : l \in LOps, l2 \in LOps, r \in ROps}
\* program text with minimal parentheses; the AST is what it must mean
ExprProg(e) == [ast |-> <<Let("X", e), PrintS(<<V("X")>>)>>, text |-> "X = " \o RMin(e) \o ";\nprint X;"]
Pinned(e) == LET r == Eval(e, State0) IN ~(Failed(r.S) /\ r.S.err.name = "wide")       \* e.g. not an integer ** negative
JudgedExpr == {ExprProg(e) : e \in {t \in ArithTrees \cup RelTrees \cup LogTrees \cup (IF Thorough THEN Deep3 \cup Mixed3 ELSE {}) : Pinned(t)}}

\* statement-level programs (rendered by Bloc!Render)
P2(s) == PrintS(<<Str(s)>>)
StmtProgs ==
  { <<Func("FDIV", <<"A">>, <<Return(Bin("/", I(1), V("A")))>>), Let("T", Call("tab", <<I(2), I(7)>>)), Let("N", I(0))>> \o x.defs \o x.body \o <<P2("after")>> : x \in UNION {ShapesOf(d, Leaves) : d \in 0..(IF Thorough THEN 2 ELSE 1)} }
  \cup { << Func("FA", <<"A", "B">>, <<If(Bin(">", V("A"), V("B")), <<Return(V("A"))>>, <<>>), Return(V("B"))>>),
            Func("FA", <<"A">>, <<Return(UCall("FA", <<V("A"), I(0)>>))>>),
            PrintS(<<UCall("FA", <<I(3), I(5)>>), Str(" "), UCall("FA", <<I(-1)>>)>>),
            For("I", I(1), I(6), I(2), "desc", <<PutS(<<V("I")>>)>>), For("I", I(1), I(3), NoExpr, "asc", <<PutS(<<V("I")>>)>>),
            LetN("S", TStr), PrintS(<<Call("isnull", <<V("S")>>)>>),
            IfN(<<[c |-> Bin("<", I(1), I(0)), b |-> <<P2("a")>>], [c |-> Bin("<", I(1), I(2)), b |-> <<P2("b")>>]>>, <<P2("c")>>),
            Let("U", Call("tup", <<I(1), Str("x"), D(5)>>)), Do(SetAt(V("U"), 2, Str("y"))), PrintS(<<Item(V("U"), 2), Item(V("U"), 3)>>),
            Let("T", Call("tab", <<I(2), Str("a")>>)), Do(Mem(Mem(V("T"), "at", <<I(0)>>), "concat", <<Str("z")>>)), Forall("E", V("T"), "desc", <<PutS(<<V("E")>>)>>),
            Return(Bin("+", I(40), I(2))) >> }
\* every direction keyword against increasing, decreasing and equal bounds, with and without step: the keyword decides whether the loop runs at all
ForProgs == { << For("I", I(a), I(b), IF st = 0 THEN NoExpr ELSE I(st), d, <<PutS(<<V("I"), Str(" ")>>)>>), P2("|"),
                 Let("T", Call("tab", <<I(3), I(7)>>)), Forall("E", V("T"), d, <<PutS(<<V("E")>>)>>), P2("") >>
              : a \in {1, 3}, b \in {1, 3}, st \in {0, 2}, d \in {"auto", "asc", "desc"} }
JudgedStmt == {[ast |-> x, text |-> Render(x)] : x \in StmtProgs \cup ForProgs}

RawTexts == {
  "X = \"a\\\"b\"; print X;", "X = \"a\"\"b\"; print X;", "X = \"back\\\\slash\"; print X;", "X = \"tab\\there\\nnl\"; print X;",
  "X = \"bell\\a\\b\\f\\r.\"; print strlen(X);", "X = \"\"; print strlen(X);",
  "X = 0xff; print X;", "X = 0XBEBADA; print X;", "X = 314.16e-2; print X;", "X = 0.31416E1; print X;", "X = 34e1; print X;", "X = .314; print X;",
  "X = 0.30000000000000004; Y = 0.1 + 0.2; print X == Y;", "X = 0.1; Y = X * 3; print Y == 0.3 Y;", "X = 1.7976931348623157e308; print X;",
  "X = 2.2250738585072014e-308; print X > 0;", "X = 123456789.12345678; print X;", "X = 9223372036854775807; print X;",
  "X = 9223372036854775808.0; print typeof(X) X;", "X = 0xffffffffffffffff; print X;", "X = -9223372036854775807 - 1; print X;", "X = 1e22; print X;", "X = 4.35; print X * 100;",
  "X = 5 | 2 & 3 ^ 1; print X;", "X = 1 << 2 + 1; print X;", "X = (1 << 2) + 1; print X;", "X = ~1 & 7; print X;", "X = 6 >> 1 << 1; print X;", "X = 7 & 3 == 3; print X;",
  "A = 1, B = 2 * A, C = (A + B) / 4, print \"c = \" C;", "print 1 + 2 \"x\" 3;",
  "function TP(A:integer, B:string, C:table) return decimal is begin return A + 0.5; end; print TP(1, \"s\", tab(1,1));",
  "function TT(A:tuple) return table is begin return tab(1, A@1); end; print TT(tup(1,2)).count();",
  "X = tab(2, tab(1, 1.5)); X.at(0).put(0, 2.5); print X.at(0).at(0) X.at(1).at(0);", "X = raw(2, 65); X.concat(raw(\"b\")); print str(X);",
  "X:integer; Y:table; print isnull(X) isnull(Y);", "begin raise MYERR; exception when MYERR then print error@1; when others then print \"o\"; end;",
  "X = 1; while X < 4 loop X = X + 1; if X == 2 then continue; elsif X == 3 then break; else nop; end if; end loop; print X;",
  "X = true && false || true; Y = not true or true; Z = !false; print X Y Z;", "X = 2 power 3 power 2; print X;", "X = -2 ** 2; Y = (-2) ** 2; print X Y;",
  "X = \"a\" + \"b\" + str(1) + chr(65); print X;", "X = 10 % 4 * 2 - 1 / 1; print X;", "X = ii * ii; print X;", "X = 2 + 3 * ii; print imag(X);",
  "X = pi > 3 and ee < 3 and phi > 1; print X;", "X = on; Y = off; print X Y;", "trace false; nop; print 1;", "do str(1); print 2;", "let X = 3; print X;",
  "put 1 2; put \"x\"; print \"\";",
  \* expression statements that need the keyword, adjacent print arguments
  "do \"abc\".count(); print 1;", "do (1 + 2); print 2;", "do 5; print 3;", "T = tab(1, 1); do T.concat(2); T.concat(3); print T.count();", "do tab(1, 1).count(); print 4;",
  \* names of every shape next to a parenthesis
  "X1 = 2; print (X1) (X1 + 1);", "A_1 = 3; print (A_1) (-A_1) (A_1);", "$S = 4; print ($S) ($S + 1);", "A1B = 5; put (A1B) (A1B * 2); print \"\";", "X_ = 6; Y9 = 1; print (X_) (Y9) (X_ + Y9) (Y9);",
  "T1 = tab(2, 1); print (T1.count()) (1 + 1);", "U2 = tup(1, \"a\"); print (U2@1) (2);", "print (pi) (1 + 1); print (true) (not false);",
  \* built-ins written with an empty argument list (the parentheses are part of the call), constants written without
  "X = int(); Y = str(); Z = tab(); W = tup(); V = num(); U = bool(); R = raw(); print isnull(X) isnull(Y) isnull(Z) isnull(W) isnull(V) isnull(U) isnull(R) typeof(X) typeof(Y);",
  "print random() >= 0 and random() < 1; print random(5) < 5;", "X = int(); if isnull(X) then X = 3; end if; print X pi > 3 ee > 2 true null;",
  "function NF() return integer is begin return int(); end; print isnull(NF()) isnull(str()) tab(2, int()).count();",
  \* a parameter (or a local) that the body assigns again with another type: the header is written as it was declared
  "function TOTAL(V) return integer is begin T = V; V = 0; forall E in T loop V = V + int(E); end loop; return V; end; print TOTAL(tab(4, 10)); print TOTAL(tab(2, 1).concat(5));",
  "function LBL(N) return string is begin S = N * 2; N = \"n=\"; N = N + str(S); return N; end; print LBL(4) LBL(5);",
  "function TP2(A:integer, B:string) return string is begin C = A; A = B; B = str(C); return A + B; end; print TP2(1, \"x\");",
  "function SW(A, B) return undefined is begin T = A; A = B; B = T; A = tab(1, A); return A.count() + B; end; print SW(\"s\", 2);",
  "print 5 (-1);", "print (1) (2) (3);", "X = 2; print X \"\" (X + 1);", "print \"a\" (-1) \"b\" -1;", "print 1 - 1 (- 1);", "X = 3; print (X) (-X) -X;", "print not true (not false);", "X = null; print isnull(X) typeof(X);", "X = b64enc(raw(\"hello\")); print X b64dec(X).count();" }

VARIABLE p
Init == p \in {[kind |-> "J", x |-> x] : x \in JudgedExpr \cup JudgedStmt} \cup {[kind |-> "R", t |-> t] : t \in RawTexts}
Next == UNCHANGED p
Scenario(q) ==
  IF q.kind = "J" THEN
    [prop |-> "C12", key |-> "J",
     steps |-> << [op |-> "exec", ctx |-> 0, ast |-> q.x.ast, text |-> q.x.text], [op |-> "dump", ctx |-> 0], [op |-> "unparse", ctx |-> 0],
                  [op |-> "execsaved", ctx |-> 1, from |-> 0, ast |-> q.x.ast], [op |-> "dump", ctx |-> 1], [op |-> "unparse", ctx |-> 1, same_text_as |-> 3] >>
              \o (IF Failed(RunProgram(q.x.ast, State0)) THEN <<>> ELSE <<[op |-> "cli", mode |-> "save", ast |-> q.x.ast, text |-> q.x.text, args |-> <<>>]>>)]
  ELSE
    [prop |-> "C12", key |-> "R",
     steps |-> << [op |-> "exec", ctx |-> 0, free |-> TRUE, text |-> q.t], [op |-> "dump", ctx |-> 0], [op |-> "unparse", ctx |-> 0],
                  [op |-> "execsaved", ctx |-> 1, from |-> 0, same_as |-> 1], [op |-> "dump", ctx |-> 1, same_as |-> 2, after |-> 4], [op |-> "unparse", ctx |-> 1, same_text_as |-> 3],
                  \* the same text typed into the CLI and written out by its `save` command: the saved file, run as a script, prints what the session printed
                  [op |-> "cli", mode |-> "save", relsave |-> TRUE, text |-> q.t, args |-> <<>>] >>]
Emit == PrintT("@@S " \o ToJson(Scenario(p)))
=============================================================================
