---------------------------- MODULE BlocCallCache ----------------------------
(***************************************************************************)
(* Implementation-shaped model of how a user function call gets its        *)
(* runtime context (FunctorManager::createEnv, Env, expression_functor):   *)
(* every function keeps a cache of runtime contexts; a call takes one from *)
(* the cache (or creates one), stamps the recursion depth, clears the      *)
(* return condition, resets the locals from the pristine context, binds    *)
(* the arguments, runs the body and gives the context back to the cache    *)
(* when the Env guard is destroyed - also when the argument binding or the *)
(* body fails.                                                             *)
(*                                                                         *)
(* A context is [loc: does a local still hold something from an earlier    *)
(* call, ret: return condition, depth: recursion stamp].  The stack is the *)
(* chain of active calls.  Property (C08): a body always starts with       *)
(* unset locals, no return condition and depth = caller depth + 1, so the  *)
(* recursion limit is reached exactly at the same nesting; no context is   *)
(* lost.  Dev re-enables what defective variants do (MC_C08_dev_*.cfg).    *)
(***************************************************************************)
EXTENDS Integers, Sequences, FiniteSets, TLC

CONSTANTS Fns,        \* functions (each has its own cache; they call each other)
          Limit,      \* recursion limit (255 in BLOC; small here)
          MaxCtx,     \* bound on the contexts ever created
          Dev         \* subset of {"keep_locals"     recycled context keeps the locals of the previous call (pinned tree D14)
                      \*            "no_depth_stamp"  recursion depth not stamped on a recycled context (seeded C08-1)
                      \*            "keep_return"     return condition not cleared on a recycled context (seeded C08-2)
                      \*            "leak_on_bind"}   a failing argument binding loses the context (pinned tree D19)

VARIABLES cache,      \* per function: sequence of contexts waiting in its cache
          stack,      \* active calls, innermost last: the context each runs in
          created,    \* number of contexts ever created
          lost,       \* contexts neither cached nor active (leaked)
          bad         \* "" or what went wrong at the start of a body
vars == <<cache, stack, created, lost, bad>>

Fresh(d) == [fn |-> "", loc |-> FALSE, ret |-> FALSE, depth |-> d]
Depth == IF stack = <<>> THEN 0 ELSE stack[Len(stack)].depth

Init == cache = [f \in Fns |-> <<>>] /\ stack = <<>> /\ created = 0 /\ lost = 0 /\ bad = ""

\* createEnv up to the binding of the arguments; bindok = the arguments evaluate without error
Call(f, bindok) ==
  /\ Depth < Limit                      \* else RECURSION_LIMIT is raised before any context is taken
  /\ (cache[f] = <<>> => created < MaxCtx)
  /\ LET d == Depth + 1
         ctx == IF cache[f] = <<>> THEN [Fresh(d) EXCEPT !.fn = f]
                ELSE LET c == Head(cache[f]) IN
                     [fn |-> f, loc |-> IF "keep_locals" \in Dev THEN c.loc ELSE FALSE,
                      ret |-> IF "keep_return" \in Dev THEN c.ret ELSE FALSE,
                      depth |-> IF "no_depth_stamp" \in Dev THEN c.depth ELSE d]
         cache2 == IF cache[f] = <<>> THEN cache[f] ELSE Tail(cache[f])
     IN  /\ created' = IF cache[f] = <<>> THEN created + 1 ELSE created
         /\ IF bindok
            THEN /\ stack' = Append(stack, ctx) /\ cache' = [cache EXCEPT ![f] = cache2] /\ lost' = lost
                 /\ bad' = IF bad # "" THEN bad
                           ELSE IF ctx.loc THEN "a body starts with a local left by an earlier call"
                           ELSE IF ctx.ret THEN "a body starts with the return condition set"
                           ELSE IF ctx.depth # d THEN "the recursion depth of the call is not the caller's + 1"
                           ELSE ""
            ELSE \* the binding fails: the Env guard gives the context back (or it is lost)
                 /\ stack' = stack /\ bad' = bad
                 /\ IF "leak_on_bind" \in Dev THEN cache' = [cache EXCEPT ![f] = cache2] /\ lost' = lost + 1
                    ELSE cache' = [cache EXCEPT ![f] = <<ctx>> \o cache2] /\ lost' = lost

\* the body assigns a local / executes return (with or without value) / then the call ends and the context is recycled
Body(setloc, setret) ==
  /\ stack # <<>>
  /\ stack' = [stack EXCEPT ![Len(stack)] = [@ EXCEPT !.loc = @ \/ setloc, !.ret = @ \/ setret]]
  /\ UNCHANGED <<cache, created, lost, bad>>
End == /\ stack # <<>>
       /\ cache' = [cache EXCEPT ![stack[Len(stack)].fn] = <<stack[Len(stack)]>> \o @] /\ stack' = SubSeq(stack, 1, Len(stack) - 1)
       /\ UNCHANGED <<created, lost, bad>>

Next == \/ \E f \in Fns, b \in BOOLEAN : Call(f, b)
        \/ \E l, r \in BOOLEAN : (l \/ r) /\ Body(l, r)
        \/ End
Spec == Init /\ [][Next]_vars

(* --------------------------------- C08 --------------------------------- *)
BodyStartsClean == bad = ""
CachedCount == LET q == CHOOSE q \in [1..Cardinality(Fns) -> Fns] : \A a, b \in 1..Cardinality(Fns) : a # b => q[a] # q[b]
                   S[j \in 0..Cardinality(Fns)] == IF j = 0 THEN 0 ELSE S[j - 1] + Len(cache[q[j]]) IN S[Cardinality(Fns)]
NoContextLost == lost = 0 /\ created = CachedCount + Len(stack)
\* the recursion limit is reached exactly when Limit calls are active, whatever contexts were recycled
LimitIsExact == Len(stack) <= Limit /\ (stack # <<>> => stack[Len(stack)].depth = Len(stack) \/ bad # "")
=============================================================================
