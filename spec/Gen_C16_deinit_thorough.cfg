SPECIFICATION Spec
CONSTANTS Modules = {"csv"}
          Alphabet = "deinit"
          MaxLen = 7
INVARIANT Emit
CHECK_DEADLOCK FALSE
